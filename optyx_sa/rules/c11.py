"""C11 -- vector and matrix operations denote their NumPy counterparts (FOUR STRUCTURAL CLAUSES ONLY).

Taken whole the property quantifies over values; decided here are necessary structural conditions:
R11.1 operand order of forward / reflected operators (self left; reflected non-commutative: other left) and the
      operator literal of each arithmetic dunder
R11.2 no silent truncation: element lists that are zipped / indexed together are size-checked (raising) on every
      branch where the sizes are independent; operand-kind ladders end in a raising default
R11.3 index maps of views and products (transpose, symmetric sharing, diagonal, rows/columns, matrix-vector rows)
R11.4 "same vector" is decided by identity or variable lists, never by .name; views built without __init__ copy
      every slot and share (not re-create) Variable objects
"""

from __future__ import annotations

import ast

from ..astutil import dotted, src, walk_local, local_assignments, calls, terminal, if_chain, parent
from ..astutil import dominating_guards
from ..report import AnalysisError, Frag

ARITH = {"add": "+", "sub": "-", "mul": "*", "truediv": "/", "pow": "**"}
COMMUTATIVE = {"+", "*"}
CLASSES = ("Expression", "VectorVariable", "VectorExpression", "MatrixVariable", "MatrixExpression")
HELPERS = {"_vector_binary_op", "_matrix_binary_op"}
SIZE_ERRORS = ("DimensionMismatchError", "WrongDimensionalityError", "ShapeMismatchError")


def role(node, params):
    """'self' | 'other' | None for an operand expression inside an operator method."""
    # a name bound by `for a, b in zip(A, B)` stands for an element of A / B; a local built by a helper from `other`
    # stands for `other`
    if isinstance(node, ast.Name):
        q_ = parent(node)
        while q_ is not None and not isinstance(q_, (ast.FunctionDef, ast.AsyncFunctionDef)):
            gens = q_.generators if isinstance(q_, (ast.ListComp, ast.GeneratorExp, ast.SetComp)) else [q_] if isinstance(q_, ast.For) else []
            for g in gens:
                if isinstance(g.target, ast.Tuple) and isinstance(g.iter, ast.Call) and dotted(g.iter.func) == "zip" and len(g.target.elts) == len(g.iter.args):
                    for t_, a_ in zip(g.target.elts, g.iter.args):
                        if isinstance(t_, ast.Name) and t_.id == node.id:
                            return role(a_, params)
                elif isinstance(g.target, ast.Name) and g.target.id == node.id:
                    return role(g.iter, params)
            q_ = parent(q_)
        fn = q_
        if fn is not None:
            vals = [v for v in local_assignments(fn).get(node.id, []) if isinstance(v, ast.AST)]
            if len(vals) == 1 and not (isinstance(vals[0], ast.Name) and vals[0].id == node.id):
                return role(vals[0], params)
    s = src(node)
    names = {n.id for n in ast.walk(node) if isinstance(n, ast.Name)}
    other = params[1] if len(params) > 1 else "other"
    if other in names or "const" in names:
        return "other"
    if "self" in names or names & {"v", "expr", "var", "e", "x"}:
        return "self"
    return None


def check(prog, rep):
    from . import pitfalls as _pit
    rep.section(_pit.report, prog, rep, 'R11.P', ['src/optyx/core/vectors.py', 'src/optyx/core/matrices.py'], ('P1', 'P3'))
    rep.section(_operators, prog, rep)
    rep.section(_truncation, prog, rep)
    rep.section(_index_maps, prog, rep)
    rep.section(_identity, prog, rep)
    rep.section(_memo_and_buffers, prog, rep)
    rep.section(_block_symmetry, prog, rep)
    rep.expect_min("R11.1", 40)
    rep.expect_min("R11.2", 14)
    rep.expect_min("R11.3", 10)
    rep.expect_min("R11.4", 5)
    rep.explanation = (
        "STRUCTURAL CLAUSES ONLY (the behavioural core -- equality with NumPy for all shapes and values -- is out of "
        "reach of static analysis and is not claimed): operand order and operator literal of all arithmetic dunders of "
        "the five operator-bearing classes; raising size guards in front of every pairing of two operand element lists; "
        "index expressions of transpose / symmetric / diagonal / row / column / matrix-vector constructions; identity "
        "(not name) comparison of vectors and slot-complete view constructors."
    )


# ------------------------------------------------------------------------------------------------ R11.1
def _operators(prog, rep):
    for cname in CLASSES:
        ci = prog.cls(cname)
        for stem, lit in ARITH.items():
            for refl in (False, True):
                mname = f"__{'r' if refl else ''}{stem}__"
                m = ci.methods.get(mname)
                if m is None:
                    continue
                params = [a.arg for a in m.node.args.args]
                built = []
                for c in calls(m.node, local=False):
                    f = dotted(c.func)
                    if f == "BinaryOp" and len(c.args) == 3 and isinstance(c.args[2], ast.Constant):
                        built.append((c.args[0], c.args[1], c.args[2].value, c))
                    elif f in HELPERS and len(c.args) == 3 and isinstance(c.args[2], ast.Constant):
                        built.append((c.args[0], c.args[1], c.args[2].value, c))
                    elif f in ("ElementwisePower",) and len(c.args) == 2:
                        built.append((c.args[0], c.args[1], "**", c))
                if not built:
                    raise AnalysisError(f"{cname}.{mname}: no operator construction recognised")
                for a, b, l, c in built:
                    ra, rb = role(a, params), role(b, params)
                    lit_ok = l == lit
                    if refl and lit not in COMMUTATIVE:
                        order_ok = (ra, rb) == ("other", "self")
                    elif refl:
                        order_ok = {ra, rb} == {"self", "other"}
                    else:
                        order_ok = (ra, rb) == ("self", "other")
                    ok = lit_ok and order_ok
                    if not ok and (ra is None or rb is None or ra == rb):
                        rep.undecided(f"{cname}.{mname}: which operand of `{src(c)[:50]}` is self and which is the other one is not readable")
                        continue
                    rep.ob("R11.1", f"{cname}.{mname}", ok,
                           f"builds ({ra} {l} {rb})" if ok else
                           (f"builds operator {l!r} instead of {lit!r}" if not lit_ok else f"operands are ({ra}, {rb}): " + ("a reflected non-commutative operator must put `other` on the left (3 - x is not x - 3)" if refl else "a forward operator must put self on the left")),
                           loc=f"{m.module.rel}:{c.lineno}", detail=f"order+literal:{src(c)[:40]}", robust=True)
        neg = ci.methods.get("__neg__")
        if neg is not None:
            s = src(neg.node)
            ok = "UnaryOp(self, 'neg')" in s or "[-" in s or "-self._variables[i][j]" in s or "-expr" in s
            rep.ob("R11.1", f"{cname}.__neg__", ok, "negates every element / builds the neg node" if ok else "__neg__ does not negate", loc=neg.loc, detail="neg")
    # reflected operators reached by NumPy arrays: a container that sets __array_ufunc__ = None makes `array - x` call
    # x.__rsub__(array).  If that method broadcasts `other` whole to every element (BinaryOp(_ensure_expr(other), elem, op)
    # in a per-element loop, `other` never indexed / zipped / handed to the pairing helper), the result's elements are
    # array - x_i each: a list of arrays, not NumPy's element-wise difference.
    for cname in ("VectorVariable", "VectorExpression"):
        ci = prog.cls(cname)
        defers = any(isinstance(st, ast.Assign) and any(isinstance(t, ast.Name) and t.id == "__array_ufunc__" for t in st.targets) and isinstance(st.value, ast.Constant) and st.value.value is None for st in ci.node.body)
        if not defers:
            continue
        for mname in ("__rsub__", "__rtruediv__", "__rpow__"):
            m = ci.methods.get(mname)
            if m is None or len(m.node.args.args) < 2:
                continue
            other = m.node.args.args[1].arg
            uses = [n for n in ast.walk(m.node) if isinstance(n, ast.Name) and n.id == other and isinstance(n.ctx, ast.Load)]
            whole_in_loop = []
            handled = False
            for n in uses:
                p_ = parent(n)
                # handed to a helper / tested / converted: the method looks at what `other` is
                if isinstance(p_, ast.Call) and (dotted(p_.func) or "") not in ("_ensure_expr", "Constant", "float"):
                    handled = True
                if isinstance(p_, ast.Subscript) and p_.value is n:
                    handled = True
                q_ = p_
                in_comp = False
                while q_ is not None and q_ is not m.node:
                    if isinstance(q_, (ast.ListComp, ast.GeneratorExp, ast.For)):
                        in_comp = True
                    q_ = parent(q_)
                if in_comp and isinstance(p_, ast.Call) and (dotted(p_.func) or "") in ("_ensure_expr", "Constant"):
                    whole_in_loop.append(n)
            if handled:
                rep.ob("R11.2", f"{cname}.{mname}", True, f"`{other}` is examined / paired by a helper before elements are built", loc=m.loc, detail="reflected-array-operand", robust=True)
            elif whole_in_loop:
                rep.ob("R11.2", f"{cname}.{mname}", False,
                       f"{cname} sets __array_ufunc__ = None, so `array {ARITH.get(mname[3:-2], '?')} vector` lands here with the whole array in `{other}`; the method wraps `{other}` once per element (`{src(parent(whole_in_loop[0]))[:40]}` inside the element loop) without pairing it element by element or checking its size: "
                       f"np.array([10, 20, 30]) - x evaluates to three arrays instead of [10 - x0, 20 - x1, 30 - x2]",
                       loc=f"{m.module.rel}:{whole_in_loop[0].lineno}", detail="reflected-array-operand", robust=True)
            else:
                rep.undecided(f"{cname}.{mname}: how `{other}` reaches the elements is not readable")
    # matmul family: array on the side it was written
    VV = prog.cls("VectorVariable")
    rm = VV.methods.get("__rmatmul__")
    s = src(rm.node)
    ok = Frag(s, "LinearCombination(arr, self)", "MatrixVectorProduct(arr, self)", "arr.ndim == 1", "arr.ndim == 2")
    rep.ob("R11.1", "VectorVariable.__rmatmul__", ok, "1-D array @ x -> LinearCombination(arr, x); 2-D array @ x -> MatrixVectorProduct(arr, x)" if ok else "array @ vector is not dispatched on ndim to LinearCombination / MatrixVectorProduct with the array as coefficient", loc=rm.loc, detail="matmul")


# ------------------------------------------------------------------------------------------------ R11.2
_PROG = {}


def _error_factory(name, scope_nodes) -> bool:
    """``name`` is a function (nested in the current function, or module-level in the package) whose every return
    is a freshly constructed size error."""
    prog = _PROG.get("prog")
    cands = [n for sc in scope_nodes for n in ast.walk(sc) if isinstance(n, ast.FunctionDef) and n.name == name]
    if not cands and prog is not None:
        cands = [f.node for f in prog.find_func(name) if f.cls is None and f.parent is None]
    for fn in cands[:1]:
        rets = [r.value for r in ast.walk(fn) if isinstance(r, ast.Return)]
        return bool(rets) and all(isinstance(r, ast.Call) and dotted(r.func) in SIZE_ERRORS for r in rets)
    return False


def _raises_size_error(stmts):
    for st in stmts:
        for n in ast.walk(st):
            if isinstance(n, ast.Raise) and isinstance(n.exc, ast.Call):
                if dotted(n.exc.func) in SIZE_ERRORS:
                    return True
                # raise make_error(...) with an error factory (local closure or module helper)
                if isinstance(n.exc.func, ast.Name):
                    scope = []
                    p = getattr(n, "_parent", None)
                    while p is not None:
                        if isinstance(p, (ast.FunctionDef, ast.AsyncFunctionDef)):
                            scope.append(p)
                        p = getattr(p, "_parent", None)
                    if _error_factory(n.exc.func.id, scope):
                        return True
    return False


def _one_sided_size_test(stmts):
    """An `if a < b: raise <size error>` (or >, <=, >=) with no `!=` test next to it: the size check exists but lets the
    other inequality through.  -> the If node or None"""
    found, has_ne = None, False
    for st in stmts:
        for n in ast.walk(st):
            if isinstance(n, ast.If) and _raises_size_error(n.body):
                for c in ast.walk(n.test):
                    if isinstance(c, ast.Compare) and len(c.ops) == 1:
                        if isinstance(c.ops[0], (ast.NotEq, ast.Eq)):
                            has_ne = True
                        elif isinstance(c.ops[0], (ast.Lt, ast.Gt, ast.LtE, ast.GtE)) and not any(isinstance(x, ast.Constant) for x in (c.left, c.comparators[0])):
                            found = found or n
    return None if has_ne else found


def _may_validate(prog, fi, stmts) -> bool:
    """Some call in ``stmts`` goes to a function of the package that could do the size check (it raises somewhere, or is
    not resolvable): plain constructors / NumPy / builtins do not count."""
    harmless = {"len", "zip", "range", "list", "tuple", "enumerate", "isinstance", "float", "int", "getattr", "hasattr", "super", "_ensure_expr", "sum", "min", "max", "any", "all", "str", "repr", "type", "iter", "next", "map"}
    for st in stmts:
        for c in ast.walk(st):
            if not isinstance(c, ast.Call):
                continue
            d = dotted(c.func) or ""
            if d.startswith(("np.", "numpy.", "math.")) or d in harmless or d.split(".")[-1] in harmless:
                continue
            if d in prog.classes:
                continue        # constructing a node: its own constructor is checked on its own
            if isinstance(c.func, ast.Attribute) and c.func.attr in ("append", "extend", "items", "keys", "values", "get", "copy", "astype", "tolist", "flatten", "ravel", "reshape", "format", "join"):
                continue
            cands = [f for f in prog.functions.values() if f.name == d.split(".")[-1]]
            if not cands:
                return True
            if any(any(isinstance(x, ast.Raise) for x in ast.walk(f.node)) for f in cands):
                return True
    return False


def _admitted_lengths(prog, rep):
    """A size test that lets a second length through -- `if len(a) not in (1, n): raise` -- is a promise to broadcast
    that length; an operand of that length which is then paired as it is (zip / index loop) silently truncates the
    result to one element.  Positive form: the membership test, and no broadcast of that operand under `len(a) == k`."""
    n_tests = 0
    for fi in prog.functions.values():
        if fi.module.name not in ("optyx.core.vectors", "optyx.core.matrices"):
            continue
        for st in walk_local(fi.node, include_self=False):
            if not (isinstance(st, ast.If) and _raises_size_error(st.body)):
                continue
            for t in ast.walk(st.test):
                if isinstance(t, ast.Compare) and len(t.ops) == 1 and isinstance(t.ops[0], ast.NotIn) and isinstance(t.left, ast.Call) and dotted(t.left.func) == "len" and t.left.args and isinstance(t.comparators[0], (ast.Tuple, ast.List, ast.Set)):
                    n_tests += 1
                    arr = src(t.left.args[0])
                    extra = [e.value for e in t.comparators[0].elts if isinstance(e, ast.Constant) and isinstance(e.value, int)]
                    for k in extra:
                        broadcast = False
                        for n in walk_local(fi.node, include_self=False):
                            if isinstance(n, ast.Call) and (dotted(n.func) or "").split(".")[-1] in ("repeat", "full", "broadcast_to", "tile", "resize") and any(src(a) == arr or arr in src(a) for a in n.args):
                                broadcast = True
                            if isinstance(n, ast.BinOp) and isinstance(n.op, ast.Mult) and (arr in src(n.left) or arr in src(n.right)) and any(isinstance(x, (ast.List, ast.Call)) for x in (n.left, n.right)):
                                # a list repeated n times counts only under a test of this operand's length
                                if any(f"len({arr})" in src(g_) for g_, _pol in dominating_guards(n)):
                                    broadcast = True
                        rep.ob("R11.2", f"{fi.name}[len=={k}]", broadcast,
                               f"an operand of length {k} is admitted by `{src(t)[:50]}` and broadcast before pairing" if broadcast else
                               f"`{src(t)[:60]}` lets an operand of length {k} through, but {fi.name} never broadcasts `{arr}` to the other operand's size: it is paired element by element as it is, and zip() / the index loop stops after {k} element(s) -- "
                               f"the result silently has {k} element(s) where NumPy would broadcast or raise",
                               loc=f"{fi.module.rel}:{t.lineno}", detail="admitted-length", robust=True)
    rep.saw("size tests admitting a second length", n_tests)


def _truncation(prog, rep):
    _PROG["prog"] = prog
    _admitted_lengths(prog, rep)
    # (a) operand-kind ladders of the four pairing helpers: each arm that takes elements from a sized operand is
    #     preceded by a raising size test; the default raises
    for q in ("optyx.core.vectors:_vector_binary_op", "optyx.core.vectors:_vector_constraint", "optyx.core.matrices:_matrix_binary_op", "optyx.core.matrices:_matrix_constraint"):
        fi = prog.func(q)
        ladders = [n for n in fi.node.body if isinstance(n, ast.If) and "isinstance(right" in src(n.test)]
        if not ladders:
            raise AnalysisError(f"{fi.name}: operand-kind ladder not found")
        arms, els = if_chain(ladders[-1])
        for test, body, node in arms:
            kinds = src(test)
            scalar = "(int, float)" in kinds
            recurses = any(isinstance(c, ast.Call) and dotted(c.func) == fi.name for st in body for c in ast.walk(st))
            if scalar or recurses:
                rep.ob("R11.2", f"{fi.name}[{kinds[18:-1]}]", True, "scalar broadcast / delegated after conversion: sized by construction", loc=f"{fi.module.rel}:{node.lineno}", detail="arm", trivial=True)
                continue
            # the size that is compared must be the size of the operand whose elements are paired: `len(right)`,
            # `right.size`, `right.shape` -- or a helper that returns exactly that for its argument
            for st in body:
                if isinstance(st, ast.Assign) and isinstance(st.value, ast.Call) and isinstance(st.value.func, ast.Name):
                    helper = prog.functions.get(f"{fi.module.name}:{st.value.func.id}")
                    if helper is not None and ("size" in helper.name or "len" in helper.name or "shape" in helper.name):
                        hp = helper.node.args.args[0].arg
                        bad = []
                        for r in [x for x in ast.walk(helper.node) if isinstance(x, ast.Return) and x.value is not None]:
                            vals = [r.value] if not isinstance(r.value, ast.IfExp) else [r.value.body, r.value.orelse]
                            for v in vals:
                                t = src(v)
                                if t not in (f"{hp}.size", f"len({hp})", f"len({hp}._variables)", f"len({hp}._expressions)", f"{hp}.shape"):
                                    bad.append(t)
                        rep.ob("R11.2", f"{fi.name}[{kinds[18:-1]}]", not bad,
                               f"size helper {helper.name} returns the operand's own size" if not bad else
                               f"the size compared with the left operand comes from {helper.name}(), which returns `{bad[0][:50]}` -- not the number of elements of the operand that is then paired element by element (e.g. a matrix-vector product has as many elements as the matrix has rows, not as its inner vector)",
                               loc=f"{helper.module.rel}:{helper.node.lineno}", detail=f"size-helper:{helper.name}")
            first_if = [st for st in body if isinstance(st, ast.If)]
            guarded = any(_raises_size_error(st.body) and any(k in src(st.test) for k in ("len(", ".size", ".shape", ".ndim")) and "!=" in src(st.test) for st in first_if)
            # the size test must compare with the left operand's size
            compares_left = any(("left" in src(st.test) or "rows, cols" in src(st.test) or "(rows, cols)" in src(st.test)) for st in first_if if "!=" in src(st.test) and ".ndim" not in src(st.test))
            if not (guarded and compares_left):
                # the check may be hoisted in front of the ladder (one test for all sized operand kinds)
                from ..astutil import preceding_exit_guards as _peg
                pre = [t_ for t_, _pol in _peg(node) if any(k in src(t_) for k in ("len(", ".size", ".shape")) and "!=" in src(t_) and ".ndim" not in src(t_)]
                if pre:
                    if any(("left" in src(t_) or "rows, cols" in src(t_)) and "right" in src(t_) for t_ in pre):
                        rep.ob("R11.2", f"{fi.name}[{kinds[18:-1]}]", True, f"sizes are compared before the operand-kind arms (`{src(pre[0])[:50]}`) and a mismatch leaves the function", loc=f"{fi.module.rel}:{node.lineno}", detail="arm", robust=True)
                    else:
                        rep.undecided(f"{fi.name}[{kinds[18:-1]}]: a size test in front of the ladder (`{src(pre[0])[:50]}`) is not in the form this rule relates to the two operands")
                    continue
            one = _one_sided_size_test(body) if not (guarded and compares_left) else None
            if one is not None:
                rep.ob("R11.2", f"{fi.name}[{kinds[18:-1]}]", False, f"the size check is `{src(one.test)[:50]}`: operands whose sizes differ the other way are paired element by element (silent truncation)", loc=f"{fi.module.rel}:{one.lineno}", detail="arm", robust=True)
                continue
            if not (guarded and compares_left):
                # positive only when the arm raises no size error at all and hands the check to nobody -- and no size
                # error is raised elsewhere in the function either (one check after the ladder, gated by a sentinel
                # length, covers every arm that set the sentinel)
                outside = [st for st in walk_local(fi.node, include_self=False) if isinstance(st, ast.If) and not any(st is x for b_ in body for x in ast.walk(b_)) and _raises_size_error(st.body)
                           and any(k in src(st.test) for k in ("len(", ".size", ".shape", "length", "size", "shape"))]
                outside = [st for st in outside if not any(st is x for x in ast.walk(ladders[-1]))]
                if outside:
                    rep.undecided(f"{fi.name}[{kinds[18:-1]}]: the arm raises no size error itself, but `{src(outside[0].test)[:50]}` outside the operand ladder does; whether it covers this operand kind is not followed")
                    continue
                if any(_raises_size_error([st]) for st in body) or _may_validate(prog, fi, body):
                    rep.undecided(f"{fi.name}[{kinds[18:-1]}]: a size error is raised / a helper is called in this arm, but not in the `if <sizes differ>: raise` form this rule reads")
                    continue
            rep.ob("R11.2", f"{fi.name}[{kinds[18:-1]}]", guarded and compares_left,
                   "operand sizes are compared and a mismatch raises before elements are paired" if guarded and compares_left else
                   "elements of this operand kind are paired with the left operand without a raising size check: zip()/indexing silently truncates or mis-aligns",
                   loc=f"{fi.module.rel}:{node.lineno}", detail="arm", robust=True)
        ok = bool(els) and terminal(els) == "raise"
        rep.ob("R11.2", f"{fi.name}[default]", ok, "unknown operand kinds are rejected with an error" if ok else "the operand-kind ladder has no raising default", loc=fi.loc, detail="default-raises")
    # (b) constructors that tie sizes
    for cname, what in (("DotProduct", "left_size != right_size"), ("LinearCombination", "len(coefficients) != vec_size"), ("MatrixVectorProduct", "matrix.shape[1] != vec_size"), ("QuadraticForm", "matrix.shape[0] != vec_size")):
        init = prog.cls(cname).methods["__init__"]
        ok = any(isinstance(n, ast.If) and src(n.test) == what and _raises_size_error(n.body) for n in walk_local(init.node))
        one = _one_sided_size_test(init.node.body) if not ok else None
        if one is not None:
            rep.ob("R11.2", f"{cname}.__init__", False, f"the size check is `{src(one.test)[:50]}`: operands whose sizes differ the other way are accepted and then zipped / indexed (silent truncation)", loc=f"{init.module.rel}:{one.lineno}", detail="constructor-size-check", robust=True)
            continue
        if not ok and (_raises_size_error(init.node.body) or _may_validate(prog, init, init.node.body)):
            rep.undecided(f"{cname}.__init__: a size error is raised / a helper is called, but not as `if {what}: raise`")
            continue
        rep.ob("R11.2", f"{cname}.__init__", ok, f"`{what}` raises" if ok else f"{cname} can be constructed with operands of different sizes (nothing in the constructor raises a size error)", loc=init.loc, detail="constructor-size-check", robust=True)
    mv = prog.cls("MatrixVariable").methods["_matmul_vector"]
    ok = any(isinstance(n, ast.If) and src(n.test) == "self.cols != vec_size" and _raises_size_error(n.body) for n in walk_local(mv.node))
    if not ok and (_raises_size_error(mv.node.body) or _may_validate(prog, mv, mv.node.body)):
        rep.undecided("MatrixVariable._matmul_vector: a size error is raised / a helper is called, but not as `if self.cols != vec_size: raise`")
    else:
        rep.ob("R11.2", "MatrixVariable._matmul_vector", ok, "cols != vector size raises" if ok else "matrix @ vector pairs columns with vector elements and nothing raises a size error", loc=mv.loc, detail="constructor-size-check", robust=True)
    # (c) every zip over two element lists in core sits in a function with a size guard or consumes a size-tied node
    tied = {"gradient_dot_product": "DotProduct", "_is_scaled_variable_pattern": "len-check"}
    for fi in prog.functions.values():
        if not fi.module.name.startswith("optyx.core") and fi.module.name != "optyx.analysis":
            continue
        for c in calls(fi.node):
            if dotted(c.func) == "zip" and len(c.args) == 2:
                has_guard = any(isinstance(n, ast.If) and "!=" in src(n.test) and any(k in src(n.test) for k in ("len(", ".size", ".shape")) and (_raises_size_error(n.body) or "return None" in src(n.body)) for n in walk_local(fi.node))
                if not has_guard:
                    # one of the zipped lists is produced by a package helper that raises a size error (it is given the other's size)
                    asg_ = local_assignments(fi.node)
                    for a_ in c.args:
                        for v_ in ([a_] + [x for x in asg_.get(a_.id, []) if isinstance(x, ast.AST)] if isinstance(a_, ast.Name) else [a_]):
                            if isinstance(v_, ast.Call) and isinstance(v_.func, ast.Name):
                                for h_ in prog.find_func(v_.func.id):
                                    if _raises_size_error(h_.node.body):
                                        has_guard = True
                tie = fi.name in tied
                rep.ob("R11.2", f"{fi.qual.split(':')[1]}:zip({src(c.args[0])[:20]}, {src(c.args[1])[:20]})", has_guard or tie,
                       "sizes are checked in this function" if has_guard else (f"sizes are tied by {tied.get(fi.name)}" if tie else "zip() of two element lists without any size check in the function: the longer operand is silently truncated"),
                       loc=f"{fi.module.rel}:{c.lineno}", detail="zip")


# ------------------------------------------------------------------------------------------------ R11.3
def _nested_comp(node):
    """[[ELT for X in range(R1)] for Y in range(R2)] -> (Y, R2, X, R1, ELT)"""
    if isinstance(node, ast.ListComp) and isinstance(node.elt, ast.ListComp) and len(node.generators) == 1 and len(node.elt.generators) == 1:
        o, i = node.generators[0], node.elt.generators[0]
        return src(o.target), src(o.iter), src(i.target), src(i.iter), node.elt.elt
    return None


def _transpose_map(rep, construct, grid, store, rows, cols, fn):
    """view[o][i] = <store>[i][o] with o over range(cols) and i over range(rows): read off the nested comprehension.
    A recognised comprehension over the same store with the indices not swapped, or with the ranges exchanged, is
    positively wrong; anything else is not read."""
    nc = _nested_comp(grid) if grid is not None else None
    if nc is None:
        rep.undecided(f"{construct}: the transposed grid is not built by a nested comprehension this rule reads")
        return
    o, ro, i, ri, elt = nc
    e = elt
    if not (isinstance(e, ast.Subscript) and isinstance(e.value, ast.Subscript) and src(e.value.value) == store):
        rep.undecided(f"{construct}: element `{src(elt)[:40]}` is not `{store}[..][..]`")
        return
    p, q = src(e.value.slice), src(e.slice)
    if {p, q} != {o, i} or {ro, ri} != {f"range({rows})", f"range({cols})"}:
        rep.undecided(f"{construct}: `{src(grid)[:70]}` uses indices / ranges this rule does not relate to the loop variables")
        return
    ok = (p, q) == (i, o) and ro == f"range({cols})" and ri == f"range({rows})"
    rep.ob("R11.3", construct, ok, f"view[{o}][{i}] = original[{i}][{o}], {o} over the original columns, {i} over the original rows" if ok else
           (f"the grid is `{src(grid)[:80]}`: entry [{o}][{i}] of the view is original[{p}][{q}]" + (" -- not transposed" if (p, q) == (o, i) else "") + (f", with {o} ranging over {ro} and {i} over {ri}" if not (ro == f"range({cols})" and ri == f"range({rows})") else "") + "; NumPy's A.T[i][j] is A[j][i] with i over the columns of A"),
           loc=fn.loc, detail="index-map", robust=True)


def _matvec_rows(rep, mvp):
    """element k of A @ x is LinearCombination(A[k, :], x), k over range(A.shape[0])"""
    asg = {src(n.targets[0]): n.value for n in walk_local(mvp.node) if isinstance(n, ast.Assign) and len(n.targets) == 1}
    params = [a.arg for a in mvp.node.args.args]
    mat, vec = (params + ["matrix", "vector"])[1:3]
    found = False
    for c in ast.walk(mvp.node):
        if not (isinstance(c, (ast.ListComp, ast.GeneratorExp)) and len(c.generators) == 1 and isinstance(c.elt, ast.Call) and dotted(c.elt.func) == "LinearCombination" and len(c.elt.args) == 2):
            continue
        found = True
        g = c.generators[0]
        k = src(g.target)
        rng = g.iter
        bound = src(rng.args[0]) if isinstance(rng, ast.Call) and dotted(rng.func) == "range" and len(rng.args) == 1 else None
        if bound in asg:
            bound = src(asg[bound])
        row, v = c.elt.args
        if bound is None or not (isinstance(row, ast.Subscript) and src(row.value) == mat) or src(v) not in (vec, f"self.{vec}"):
            rep.undecided(f"MatrixVectorProduct.__init__: `{src(c)[:70]}` is not LinearCombination({mat}[k, :], {vec}) over range(..)")
            continue
        sl = row.slice
        first = sl.elts[0] if isinstance(sl, ast.Tuple) and len(sl.elts) == 2 else sl
        second = sl.elts[1] if isinstance(sl, ast.Tuple) and len(sl.elts) == 2 else None
        is_row = src(first) == k and (second is None or (isinstance(second, ast.Slice) and second.lower is None and second.upper is None and second.step is None))
        is_col = second is not None and src(second) == k and isinstance(first, ast.Slice)
        if not (is_row or is_col) or bound not in (f"{mat}.shape[0]", f"{mat}.shape[1]", f"len({mat})"):
            rep.undecided(f"MatrixVectorProduct.__init__: `{src(c)[:70]}`: index / range not related to the loop variable by this rule")
            continue
        ok = is_row and bound in (f"{mat}.shape[0]", f"len({mat})")
        rep.ob("R11.3", "MatrixVectorProduct.__init__", ok, f"element {k} is row {k} of the matrix dotted with the vector, {k} over the rows" if ok else
               f"element {k} of A @ x is built from `{src(row)}` for {k} in range({bound}): " + ("a COLUMN of A, not row k" if is_col else "the loop does not range over the rows of A"),
               loc=f"{mvp.module.rel}:{c.lineno}", detail="row-i", robust=True)
    if not found:
        rep.undecided("MatrixVectorProduct.__init__: no comprehension of LinearCombination(..) rows found")


def _index_maps(prog, rep):
    MV = prog.cls("MatrixVariable")
    tv = MV.methods.get("_transpose_view")
    if tv is None:
        raise AnalysisError("MatrixVariable._transpose_view not found")
    orig = tv.node.args.args[1].arg
    a = {src(n.targets[0]): n.value for n in walk_local(tv.node) if isinstance(n, ast.Assign)}
    ok = src(a.get("instance.rows")) == f"{orig}.cols" and src(a.get("instance.cols")) == f"{orig}.rows"
    rep.pin('index maps of views', "R11.3", "MatrixVariable._transpose_view", ok, "rows/cols are swapped" if ok else "the transpose view does not swap rows and cols", loc=tv.loc, detail="shape")
    _transpose_map(rep, "MatrixVariable._transpose_view", a.get("instance._variables"), f"{orig}._variables", f"{orig}.rows", f"{orig}.cols", tv)
    ME = prog.cls("MatrixExpression").methods.get("T")
    nc = None
    for n in walk_local(ME.node):
        if isinstance(n, ast.Assign):
            nc = _nested_comp(n.value) or nc
    grid = None
    for n in walk_local(ME.node):
        if isinstance(n, (ast.Assign, ast.Return)) and getattr(n, "value", None) is not None:
            for x in ast.walk(n.value):
                if _nested_comp(x) is not None:
                    grid = x
    _transpose_map(rep, "MatrixExpression.T", grid, "self._expressions", "self.rows", "self.cols", ME)
    init = MV.methods["__init__"]
    s = src(init.node)
    # structural: under the `symmetric` guard the element is taken from the already built grid with swapped indices
    sym_ifs = [n for n in walk_local(init.node) if isinstance(n, ast.If) and "symmetric" in src(n.test) and any(isinstance(x, ast.Compare) for x in ast.walk(n.test)) and "rows != cols" not in src(n.test)]
    if not sym_ifs:
        rep.undecided("R11.3 MatrixVariable.__init__: symmetric construction not in the recognised form")
    for n in sym_ifs:
        loops = {}
        p_ = getattr(n, "_parent", None)
        while p_ is not None and p_ is not init.node:
            if isinstance(p_, ast.For):
                loops[src(p_.target)] = src(p_.iter)
            p_ = getattr(p_, "_parent", None)
        apps = [c for st in n.body for c in ast.walk(st) if isinstance(c, ast.Call) and isinstance(c.func, ast.Attribute) and c.func.attr == "append"]
        lt = [x for x in ast.walk(n.test) if isinstance(x, ast.Compare) and isinstance(x.ops[0], (ast.Lt, ast.Gt))]
        okk = False
        why = "no element is appended under the symmetric guard"
        if apps and lt:
            a_, b_ = src(lt[0].left), src(lt[0].comparators[0])
            if isinstance(lt[0].ops[0], ast.Gt):
                a_, b_ = b_, a_
            v = apps[0].args[0]
            okk = src(v) == f"self._variables[{a_}][{b_}]"
            why = f"under `{src(n.test)}` the element appended is `{src(v)[:60]}`; the mirror element self._variables[{a_}][{b_}] must be reused so that A[i][j] and A[j][i] are ONE variable"
        rep.ob("R11.3", "MatrixVariable.__init__", okk, f"symmetric: for {src(lt[0]) if lt else '?'} the Variable object at the mirrored position is reused" if okk else why, loc=f"{init.module.rel}:{n.lineno}", detail="symmetric-sharing")
    # element [i][j] is named name[i,j]: the Variable(...) construction sits under a loop / comprehension over range(rows)
    # (outer: i) and one over range(cols) (inner: j); its name is read as a string pattern
    masg = local_assignments(init.node)
    found_m = 0
    for c in calls(init.node, local=False):
        if dotted(c.func) != "Variable" or not c.args:
            continue
        binders = []          # innermost first: (index name, range argument)
        p_ = parent(c)
        while p_ is not None and p_ is not init.node:
            gens = []
            if isinstance(p_, (ast.ListComp, ast.GeneratorExp)):
                gens = list(reversed(p_.generators))
            elif isinstance(p_, ast.For):
                gens = [p_]
            for g in gens:
                it = g.iter
                if isinstance(it, ast.Call) and dotted(it.func) == "range" and len(it.args) == 1 and isinstance(g.target, ast.Name):
                    binders.append((g.target.id, src(it.args[0])))
                else:
                    binders.append((src(g.target), "?"))
            p_ = parent(p_)
        found_m += 1
        pat = _fstring_pattern(c.args[0], masg)
        if pat is None or len(binders) != 2 or any(b[1] == "?" for b in binders):
            rep.undecided(f"MatrixVariable.__init__: element names `{src(c.args[0])[:40]}` under loops {binders} not interpretable")
            continue
        (j_, cols_), (i_, rows_) = binders
        if (rows_, cols_) not in (("rows", "cols"), ("self.rows", "self.cols")):
            rep.undecided(f"MatrixVariable.__init__: element construction ranges over ({rows_}, {cols_})")
            continue
        ok_m = pat in ([("expr", "name"), "[", ("expr", i_), ",", ("expr", j_), "]"], [("expr", "self.name"), "[", ("expr", i_), ",", ("expr", j_), "]"])
        shown = "".join(p if isinstance(p, str) else "{" + p[1] + "}" for p in pat)
        rep.ob("R11.3", "MatrixVariable.__init__", ok_m, f"element [{i_}][{j_}] is named name[{i_},{j_}]" if ok_m else f"the element built in row {i_}, column {j_} is named `{shown}`, not name[{i_},{j_}]", loc=f"{init.module.rel}:{c.lineno}", detail="element-names", robust=True)
    if not found_m:
        rep.undecided("MatrixVariable.__init__: no Variable(...) construction found")
    for mname in ("diagonal", "trace"):
        m = MV.methods[mname]
        t = src(m.node)
        ok = Frag(t, "self._variables[i][i]", "self.rows != self.cols")
        rep.pin('index maps of views', "R11.3", f"MatrixVariable.{mname}", ok, "uses [i][i] of a square matrix" if ok else f"{mname} does not use the [i][i] entries of a square matrix", loc=m.loc, detail="diagonal")
    gi = MV.methods["__getitem__"]
    t = src(gi.node)
    ok = Frag(t, "row_vars = self._variables[row_key][col_key]", "col_vars = [row[col_key] for row in self._variables[row_key]]", "return self._variables[row_key][col_key]", "sliced_vars = [row[col_key] for row in sliced_rows]")
    rep.pin('index maps of views', "R11.3", "MatrixVariable.__getitem__", ok, "A[i, j] / A[i, :] / A[:, j] / A[a:b, c:d] index rows first, then columns" if ok else "matrix indexing does not index rows first and columns second for all four cases", loc=gi.loc, detail="row/column")
    mvp = prog.cls("MatrixVectorProduct").methods["__init__"]
    t = src(mvp.node)
    _matvec_rows(rep, mvp)
    mm = MV.methods["_matmul_vector"]
    t = src(mm.node)
    ok = Frag(t, "BinaryOp(self._variables[i][j], vec_elem, '*')", "for i in range(self.rows):", "for j in range(self.cols):", "vector[j]", "BinaryOp(row_expr, term, '+')")
    rep.pin('index maps of views', "R11.3", "MatrixVariable._matmul_vector", ok, "row i = sum_j A[i][j] * v[j]" if ok else "(A @ v)[i] is not sum_j A[i][j] * v[j]", loc=mm.loc, detail="row-i")
    vv = prog.cls("VectorVariable")
    _element_names(prog, rep, vv)
    gi = vv.methods["__getitem__"]
    t = src(gi.node)
    ok = Frag(t, "return self._variables[key]", "sliced_vars = self._variables[key]", "key = self.size + key")
    rep.pin('index maps of views', "R11.3", "VectorVariable.__getitem__", ok, "x[i] / x[a:b:c] are Python list indexing of the element list (negative indices wrapped)" if ok else "vector indexing is not plain list indexing of the element list", loc=gi.loc, detail="slice")
    for cname in ("MatrixSum", "FrobeniusNorm"):
        ev = prog.cls(cname).methods["evaluate"]
        # the reduction runs over every POSITION of the grid; iterating a set of variables counts a variable that
        # sits at two positions (symmetric matrices) once
        t = src(ev.node)
        over_set = [n for n in ast.walk(ev.node) if isinstance(n, (ast.For, ast.comprehension)) and isinstance(n.iter, ast.Call) and isinstance(n.iter.func, ast.Attribute) and n.iter.func.attr == "get_variables"]
        over_set += [n for n in ast.walk(ev.node) if isinstance(n, (ast.For, ast.comprehension)) and isinstance(n.iter, ast.Call) and dotted(n.iter.func) in ("set", "frozenset")]
        if over_set:
            rep.ob("R11.3", f"{cname}.evaluate", False, f"{cname}.evaluate reduces over `{src(over_set[0].iter)[:50]}`, a SET of variables, not over the rows x cols positions: an element that occurs at two positions (A[i][j] and A[j][i] of a symmetric matrix are one Variable) is counted once", loc=f"{ev.module.rel}:{getattr(over_set[0], 'lineno', ev.node.lineno)}", detail="full-grid")
            continue
        rng = {src(n.iter) for n in ast.walk(ev.node) if isinstance(n, (ast.For, ast.comprehension))}
        grid = {"range(self.matrix.rows)", "range(self.matrix.cols)"} <= rng or any("product(range(self.matrix.rows), range(self.matrix.cols))" in r for r in rng)
        rows_iter = any(r in ("self.matrix._variables", "self.matrix") for r in rng)       # for row in grid: for v in row
        if grid or rows_iter:
            rep.ob("R11.3", f"{cname}.evaluate", True, "ranges over all rows x cols positions", loc=ev.loc, detail="full-grid")
        else:
            ok = Frag(t, "range(self.matrix.rows)", "range(self.matrix.cols)")
            rep.pin('index maps of views', "R11.3", f"{cname}.evaluate", ok, "ranges over all rows x cols" if ok else f"{cname}.evaluate does not range over the full rows x cols grid", loc=ev.loc, detail="full-grid")


# ------------------------------------------------------------------------------------------------ R11.4
def _identity(prog, rep):
    # comparisons of two container names
    n_cmp = 0
    for fi in prog.functions.values():
        if not fi.module.name.startswith("optyx.core"):
            continue
        for n in walk_local(fi.node):
            if isinstance(n, ast.Compare) and len(n.ops) == 1 and isinstance(n.ops[0], (ast.Eq, ast.NotEq)):
                l, r = n.left, n.comparators[0]
                if isinstance(l, ast.Attribute) and isinstance(r, ast.Attribute) and l.attr == "name" and r.attr == "name":
                    lc, rc = _container_like(l.value, fi), _container_like(r.value, fi)
                    if lc and rc:
                        n_cmp += 1
                        if fi.module.name == "optyx.core.autodiff":
                            continue  # reported by C02 R02.5
                        rep.ob("R11.4", fi.qual.split(":")[1], False,
                               f"decides that two vectors are the same by `{src(n)}`: slice views drop step and sign from their name (x[0:4], x[::-1], x[0:4:3] share one), so a different vector is treated as this one and the expression is rewritten to something else",
                               loc=f"{fi.module.rel}:{n.lineno}", detail="vector-identity-by-name")
    rep.ob("R11.4", "package", True, f"{n_cmp} name comparison(s) between vector containers found in optyx.core", detail="inventory", trivial=True)
    # a table looked up under a key made of a container's .name (and at most its size): the same decision in memo form
    n_keys = 0
    for fi in prog.functions.values():
        if not fi.module.name.startswith("optyx.core"):
            continue
        conts = {dotted(n.value) for n in walk_local(fi.node) if isinstance(n, ast.Attribute) and n.attr in ("_variables", "rows", "cols") and dotted(n.value)}
        if not conts:
            continue
        asg = local_assignments(fi.node)
        for n in walk_local(fi.node):
            key = None
            if isinstance(n, ast.Call) and isinstance(n.func, ast.Attribute) and n.func.attr in ("get", "setdefault", "pop") and n.args:
                key = n.args[0]
            elif isinstance(n, ast.Subscript) and not isinstance(n.slice, ast.Slice):
                key = n.slice
            elif isinstance(n, ast.Compare) and len(n.ops) == 1 and isinstance(n.ops[0], (ast.In, ast.NotIn)):
                key = n.left
            if key is None:
                continue
            if isinstance(key, ast.Name) and len(asg.get(key.id, [])) == 1 and isinstance(asg[key.id][0], ast.expr):
                key = asg[key.id][0]
            used = {}
            whole = set()
            for x in ast.walk(key):
                if isinstance(x, ast.Attribute) and dotted(x.value) in conts:
                    used.setdefault(dotted(x.value), set()).add(x.attr)
                elif isinstance(x, ast.Name) and x.id in conts and not isinstance(parent(x), ast.Attribute):
                    whole.add(x.id)
            for b, attrs in used.items():
                if "name" in attrs and attrs <= {"name", "size", "rows", "cols", "shape"} and b not in whole:
                    n_keys += 1
                    rep.ob("R11.4", fi.qual.split(":")[1], False,
                           f"a table is looked up under `{src(key)[:60]}`: the container `{b}` is identified by its name{' and size' if len(attrs) > 1 else ''}, but views share names "
                           f"(x[0:3], x[::-1] and x[0:3:1] are all called x[0:3]) while listing their elements in a different order, so one view is served the entry made for another",
                           loc=f"{fi.module.rel}:{n.lineno}", detail="vector-identity-by-name", robust=True)
                    break
    rep.ob("R11.4", "package", True, f"{n_keys} table key(s) made of a container's name found in optyx.core", detail="inventory-keys", trivial=True)
    dot = prog.cls("VectorVariable").methods["dot"]
    for n in walk_local(dot.node):
        if isinstance(n, ast.If) and any(isinstance(r, ast.Return) and isinstance(r.value, ast.Call) and dotted(r.value.func) == "QuadraticForm" for r in ast.walk(n)):
            from ..astutil import disjuncts
            for dj in disjuncts(n.test):
                t = src(dj)
                ident = isinstance(dj, ast.Compare) and isinstance(dj.ops[0], ast.Is)
                ordered = isinstance(dj, ast.Compare) and isinstance(dj.ops[0], ast.Eq) and src(dj.left).endswith("._variables") and src(dj.comparators[0]).endswith("._variables")
                is_type_guard = t.startswith("isinstance(")
                if is_type_guard:
                    continue
                rep.ob("R11.4", "VectorVariable.dot", ident or ordered,
                       f"`{t[:60]}` identifies the same vector by identity / ordered variable list" if ident or ordered else
                       f"the QuadraticForm rewrite is taken under `{t[:70]}`, which does not establish that both operands list the same variables in the same order (a reversed or permuted view would be rewritten to x'Ax although the product is u'Av)",
                       loc=f"{dot.module.rel}:{n.lineno}", detail=f"rewrite-guard:{'identity' if ident else 'ordered-list' if ordered else t[:30]}")
    s = src(dot.node)
    ok = "other.vector is self" in s
    rep.pin("index maps of views", "R11.4", "VectorVariable.dot", ok, "x.dot(A @ x) -> QuadraticForm is taken for the identical vector object" if ok else "the quadratic-form rewrite is not guarded by object identity", loc=dot.loc, detail="rewrite-identity")
    # view constructors: copy every slot, share Variable objects
    for cname in ("VectorVariable", "MatrixVariable"):
        ci = prog.cls(cname)
        for m in ci.methods.values():
            news = [c for c in calls(m.node) if (dotted(c.func) or "").endswith("__new__")]
            if not news:
                continue
            written = {t.attr for n in walk_local(m.node) if isinstance(n, ast.Assign) for t in n.targets if isinstance(t, ast.Attribute) and isinstance(t.value, ast.Name)}
            missing = [s_ for s_ in (ci.slots or ()) if s_ not in written]
            rep.ob("R11.4", f"{cname}.{m.name}", not missing, "assigns every slot of the class" if not missing else f"view built without __init__ leaves slot(s) {missing} unset (AttributeError or lost domain later)", loc=m.loc, detail="all-slots")
            creates = [c for c in calls(m.node, local=False) if dotted(c.func) == "Variable"]
            rep.ob("R11.4", f"{cname}.{m.name}", not creates, "shares the existing Variable objects" if not creates else "creates new Variable objects instead of sharing the original ones: the view and the original are different variables with equal names", loc=m.loc, detail="shares-variables")


def _fstring_pattern(node, assigns, depth=0):
    """A string-building expression as a list of parts: literal text (str) or ('expr', source).  Locals bound once to
    a string expression are expanded; adjacent literals are merged.  None when not interpretable."""
    parts = []
    if isinstance(node, ast.Constant) and isinstance(node.value, str):
        parts = [node.value]
    elif isinstance(node, ast.JoinedStr):
        for v in node.values:
            if isinstance(v, ast.Constant):
                parts.append(str(v.value))
            elif isinstance(v, ast.FormattedValue) and v.format_spec is None and v.conversion in (-1, 115):
                sub = None
                if isinstance(v.value, ast.Name) and depth < 3:
                    vals = [x for x in assigns.get(v.value.id, []) if isinstance(x, ast.AST)]
                    if len(vals) == 1 and isinstance(vals[0], (ast.JoinedStr, ast.Constant, ast.BinOp)):
                        sub = _fstring_pattern(vals[0], assigns, depth + 1)
                parts += sub if sub is not None else [("expr", src(v.value))]
            else:
                return None
    elif isinstance(node, ast.BinOp) and isinstance(node.op, ast.Add):
        l, r = _fstring_pattern(node.left, assigns, depth), _fstring_pattern(node.right, assigns, depth)
        if l is None or r is None:
            return None
        parts = l + r
    elif isinstance(node, ast.Call) and dotted(node.func) == "str" and len(node.args) == 1:
        parts = [("expr", src(node.args[0]))]
    elif isinstance(node, ast.Name) and depth < 3:
        vals = [x for x in assigns.get(node.id, []) if isinstance(x, ast.AST)]
        if len(vals) == 1 and isinstance(vals[0], (ast.JoinedStr, ast.Constant, ast.BinOp)):
            return _fstring_pattern(vals[0], assigns, depth + 1)
        parts = [("expr", node.id)]
    else:
        return None
    out = []
    for p_ in parts:
        if isinstance(p_, str) and out and isinstance(out[-1], str):
            out[-1] += p_
        elif p_ != "":
            out.append(p_)
    return out


def _element_names(prog, rep, vv):
    """Element i of VectorVariable(name, size) is the Variable called "name[i]", i over range(size): the constructor's
    Variable(...) call inside a comprehension / loop over range(size) is evaluated as a string pattern."""
    init = vv.methods["__init__"]
    asg = local_assignments(init.node)
    found = 0
    for c in calls(init.node, local=False):
        if dotted(c.func) != "Variable" or not c.args:
            continue
        comp = None
        p_ = parent(c)
        while p_ is not None and p_ is not init.node:
            if isinstance(p_, (ast.ListComp, ast.GeneratorExp)):
                comp = p_.generators[0]
                break
            if isinstance(p_, ast.For):
                comp = p_
                break
            p_ = parent(p_)
        if comp is None:
            continue
        found += 1
        idx, it = src(comp.target), comp.iter
        over_size = isinstance(it, ast.Call) and dotted(it.func) == "range" and len(it.args) == 1 and src(it.args[0]) in ("size", "self.size")
        pat = _fstring_pattern(c.args[0], asg)
        if pat is None or not over_size:
            rep.undecided(f"VectorVariable.__init__: element names `{src(c.args[0])[:40]}` over `{src(it)[:30]}` not interpretable")
            continue
        ok = pat == [("expr", "name"), "[", ("expr", idx), "]"] or pat == [("expr", "self.name"), "[", ("expr", idx), "]"]
        shown = "".join(p if isinstance(p, str) else "{" + p[1] + "}" for p in pat)
        rep.ob("R11.3", "VectorVariable.__init__", ok, f"element {idx} is named name[{idx}] for {idx} in range(size)" if ok else f"vector elements are named `{shown}`, not name[{idx}]: indexing, slicing and the solution's name-keyed values address other elements than NumPy's x[{idx}]", loc=f"{init.module.rel}:{c.lineno}", detail="element-names", robust=True)
    if not found:
        rep.undecided("VectorVariable.__init__: no Variable(...) construction over range(size) found")


def _block_symmetry(prog, rep):
    """The `symmetric` flag tells get_variables() (and everything built on it: Problem.variables, MatrixSum rows) that
    cell [i][j] and cell [j][i] hold the same Variable, so only the upper triangle is listed.  That is true of a matrix
    created with symmetric=True and of its transpose -- and of a sub-block only when it is a PRINCIPAL block (same row
    and column selection).  A view constructor that sets the flag for a block because it is square (or because the parent
    has it) makes the variables of the block's lower triangle disappear."""
    MV = prog.cls("MatrixVariable")
    n = 0
    for m in MV.methods.values():
        news = [c for c in calls(m.node) if (dotted(c.func) or "").endswith("__new__")]
        if m.name == "__init__":
            continue
        for st in walk_local(m.node, include_self=False):
            if not (isinstance(st, ast.Assign) and isinstance(st.targets[0], ast.Attribute) and st.targets[0].attr == "symmetric"):
                continue
            if not news:
                # the flag set on a view after it was built (block.symmetric = ...)
                v = st.value
                if isinstance(v, ast.Constant) and v.value is False:
                    continue
                n += 1
                whole = any(k in m.name.lower() for k in ("transpose", "copy")) or m.name == "T"
                if whole and isinstance(v, ast.Attribute) and v.attr == "symmetric":
                    continue
                full = all(any(k in src(v) for k in (f"{a}.start", f"{a}.stop", f"{a}.step")) for a in ("row_key", "col_key")) and sum(src(v).count(k) for k in (".start", ".stop", ".step")) >= 6
                if m.name == "__getitem__" and not full and not (isinstance(v, ast.Compare) and src(v.left) in ("row_key",) and src(v.comparators[0]) == "col_key"):
                    rep.ob("R11.4", f"MatrixVariable.{m.name}", False,
                           f"a block view gets symmetric=`{src(v)[:70]}`: that does not compare the whole row selection with the whole column selection (start, stop and step), so a block such as S[0:2, 0:4:2] or S[::-1, :] "
                           f"is flagged symmetric although its cells [i][j] and [j][i] hold different variables -- get_variables() then lists only its upper triangle",
                           loc=f"{m.module.rel}:{st.lineno}", detail="block-symmetry", robust=True)
                else:
                    rep.undecided(f"MatrixVariable.{m.name}: the symmetric flag of a view is set to `{src(v)[:50]}`; whether that holds only for principal blocks is not decided")
                continue
            n += 1
            v = st.value
            construct = f"MatrixVariable.{m.name}"
            if isinstance(v, ast.Constant) and v.value is False:
                rep.ob("R11.4", construct, True, "a view built from a block of cells is never flagged symmetric (every cell is listed)", loc=f"{m.module.rel}:{st.lineno}", detail="block-symmetry", robust=True)
                continue
            if isinstance(v, ast.Attribute) and v.attr == "symmetric" and "transpose" in m.name:
                rep.ob("R11.4", construct, True, "the transpose of a symmetric matrix is symmetric: the flag is copied", loc=f"{m.module.rel}:{st.lineno}", detail="block-symmetry", robust=True)
                continue
            if isinstance(v, ast.Name) and v.id in {a.arg for a in m.node.args.args + m.node.args.kwonlyargs}:
                # the flag is a parameter: decided at the call sites
                from ..inline import call_sites, bind_args
                for c_fi, c_ in call_sites(prog, m, "optyx.core"):
                    try:
                        arg = bind_args(m.node, c_).get(v.id)
                    except Exception:
                        arg = None
                    if arg is None or (isinstance(arg, ast.Constant) and arg.value is False):
                        continue
                    if isinstance(arg, ast.Attribute) and arg.attr == "symmetric":
                        # the parent's flag copied as it is: right for a view of the WHOLE matrix (transpose, copy), wrong for a block
                        if any(k in c_fi.name.lower() for k in ("transpose", "copy")) or c_fi.name == "T":
                            rep.ob("R11.4", f"{construct}<-{c_fi.name}", True, "a view of the whole matrix keeps the parent's flag", loc=f"{c_fi.module.rel}:{c_.lineno}", detail="block-symmetry", robust=True)
                            continue
                        if c_fi.name != "__getitem__":
                            rep.undecided(f"{construct}: {c_fi.name} copies the parent's symmetric flag into a view; whether that view covers the whole matrix is not decided")
                            continue
                    principal = any(isinstance(x, ast.Compare) and isinstance(x.ops[0], ast.Eq) and all(any(k in src(y) for k in ("row", "col")) for y in (x.left, x.comparators[0])) and "len(" not in src(x) for x in ast.walk(arg))
                    if principal:
                        rep.undecided(f"{construct}: `{src(arg)[:60]}` ({c_fi.name}) compares the row selection with the column selection; whether that establishes a principal block is not decided")
                        continue
                    rep.ob("R11.4", f"{construct}<-{c_fi.name}", False,
                           f"{c_fi.name} builds a block view with symmetric=`{src(arg)[:60]}`: that does not require the block to be a PRINCIPAL block (same rows and columns), and an off-diagonal square block of a symmetric matrix is not symmetric -- "
                           f"get_variables() then lists only its upper triangle, so the variables below the block's diagonal vanish from the problem",
                           loc=f"{c_fi.module.rel}:{c_.lineno}", detail="block-symmetry", robust=True)
                continue
            rep.undecided(f"{construct}: the symmetric flag of the view is `{src(v)[:50]}`; not related to the selected rows / columns by this rule")
    if n == 0:
        rep.undecided("MatrixVariable: no view constructor assigns the symmetric flag (idiom not recognised)")


def _memo_and_buffers(prog, rep):
    """Two positive-identification rules over the containers of the vector / matrix API.

    (a) a view returned by __getitem__ out of a per-object memo must be keyed by the complete index: a key built from
        some fields of the slice (start, stop) but not all of them hands out the view of a different index.
    (b) evaluate() of a container returns a fresh array: a buffer kept on the object, refilled in place and returned, makes
        every earlier result change with the next call.
    Both rules report only what they recognise; anything else about memoisation is not decided here."""
    SLICE_FIELDS = ("start", "stop", "step")
    n_gi = n_ev = 0
    for ci in prog.classes.values():
        if not ci.module.name.startswith("optyx.core"):
            continue
        gi = ci.methods.get("__getitem__")
        if gi is not None and len(gi.node.args.args) >= 2:
            n_gi += 1
            param = gi.node.args.args[1].arg
            asg = local_assignments(gi.node)

            def resolve(e, depth=0):
                if isinstance(e, ast.Name) and e.id != param and depth < 3 and len(asg.get(e.id, [])) == 1 and isinstance(asg[e.id][0], ast.expr):
                    return resolve(asg[e.id][0], depth + 1)
                return e

            def memo_lookup(e):
                """(attr, key-expr) when e reads self.<attr>[K] / self.<attr>.get(K)."""
                if isinstance(e, ast.Name) and e.id != param and len(asg.get(e.id, [])) > 1:
                    for v in asg[e.id]:
                        got = memo_lookup(v) if isinstance(v, ast.expr) and not isinstance(v, ast.Name) else None
                        if got:
                            return got
                    return None
                e = resolve(e)
                if isinstance(e, ast.Subscript) and isinstance(e.value, ast.Attribute) and dotted(e.value.value) == "self":
                    return e.value.attr, e.slice
                if isinstance(e, ast.Call) and isinstance(e.func, ast.Attribute) and e.func.attr in ("get", "setdefault") and isinstance(e.func.value, ast.Attribute) and dotted(e.func.value.value) == "self" and e.args:
                    return e.func.value.attr, e.args[0]
                return None

            stored = {t.value.attr for n in walk_local(gi.node) if isinstance(n, ast.Assign) for t in n.targets
                      if isinstance(t, ast.Subscript) and isinstance(t.value, ast.Attribute) and dotted(t.value.value) == "self"}
            for r in walk_local(gi.node):
                if not isinstance(r, ast.Return) or r.value is None:
                    continue
                ml = memo_lookup(r.value)
                if ml is None or ml[0] not in stored:
                    continue
                attr, key = ml
                # expand locals inside the key one level
                names = set()
                fields = set()
                for x in ast.walk(key):
                    xs = [x]
                    if isinstance(x, ast.Name) and x.id != param:
                        xs = [y for v in asg.get(x.id, []) if isinstance(v, ast.AST) for y in ast.walk(v)]
                    for y in xs:
                        if isinstance(y, ast.Attribute) and isinstance(y.value, ast.Name) and y.value.id == param:
                            fields.add(y.attr)
                        elif isinstance(y, ast.Name) and y.id == param and not (isinstance(parent(y), ast.Attribute) and parent(y).value is y):
                            names.add(y.id)
                if names:
                    rep.ob("R11.3", f"{ci.name}.__getitem__", True, f"memoised views in self.{attr} are keyed by the whole index `{param}`", loc=gi.loc, detail="memo-key", robust=True)
                elif fields and not set(SLICE_FIELDS) <= fields and fields <= set(SLICE_FIELDS):
                    missing = [f for f in SLICE_FIELDS if f not in fields]
                    rep.ob("R11.3", f"{ci.name}.__getitem__", False,
                           f"a view is handed out from the memo self.{attr} under the key `{src(resolve(key))[:70]}`, which is built from {param}.{', '.join(sorted(fields))} but not {param}.{', '.join(missing)}: "
                           f"two slices that differ only in {'/'.join(missing)} (x[0:4] and x[0:4:2], x[:] and x[::-1]) get the same view, so the second one denotes the wrong elements",
                           loc=f"{gi.module.rel}:{r.lineno}", detail="memo-key", robust=True)
                elif set(SLICE_FIELDS) <= fields:
                    rep.ob("R11.3", f"{ci.name}.__getitem__", True, f"memoised views in self.{attr} are keyed by start, stop and step", loc=gi.loc, detail="memo-key", robust=True)
                else:
                    rep.undecided(f"{ci.name}.__getitem__ returns a memoised view from self.{attr}; the key `{src(key)[:50]}` is not interpretable")
        ev = ci.methods.get("evaluate")
        if ev is not None:
            n_ev += 1
            asg = local_assignments(ev.node)
            # locals that alias an attribute of self: `r = self._buf`, `r = self._buf = ...`
            alias = {}
            for n in walk_local(ev.node):
                if isinstance(n, ast.Assign):
                    attrs = [t for t in n.targets if isinstance(t, ast.Attribute) and dotted(t.value) == "self"]
                    nms = [t.id for t in n.targets if isinstance(t, ast.Name)]
                    if attrs and nms:
                        for nm in nms:
                            alias[nm] = attrs[0].attr
                    if isinstance(n.value, ast.Attribute) and dotted(n.value.value) == "self":
                        for nm in nms:
                            alias[nm] = n.value.attr
                    # self._buf = r   (the local is published afterwards)
                    if attrs and isinstance(n.value, ast.Name):
                        alias[n.value.id] = attrs[0].attr
            if not alias:
                continue
            inplace = {}
            for n in walk_local(ev.node):
                tg = None
                if isinstance(n, ast.Assign):
                    for t in n.targets:
                        if isinstance(t, ast.Subscript) and isinstance(t.value, ast.Name):
                            tg = t.value.id
                elif isinstance(n, ast.AugAssign):
                    t = n.target
                    tg = t.id if isinstance(t, ast.Name) else t.value.id if isinstance(t, ast.Subscript) and isinstance(t.value, ast.Name) else None
                elif isinstance(n, ast.Call):
                    for kw in n.keywords:
                        if kw.arg == "out" and isinstance(kw.value, ast.Name):
                            tg = kw.value.id
                    if (dotted(n.func) or "").endswith("copyto") and n.args and isinstance(n.args[0], ast.Name):
                        tg = n.args[0].id
                    if isinstance(n.func, ast.Attribute) and n.func.attr == "fill" and isinstance(n.func.value, ast.Name):
                        tg = n.func.value.id
                if tg in alias:
                    inplace.setdefault(tg, n)
            for r in walk_local(ev.node):
                if isinstance(r, ast.Return) and isinstance(r.value, ast.Name) and r.value.id in alias and r.value.id in inplace:
                    nm = r.value.id
                    rep.ob("R11.3", f"{ci.name}.evaluate", False,
                           f"evaluate() returns `{nm}`, which is the array kept in self.{alias[nm]} and is refilled in place (line {inplace[nm].lineno}) on every call: "
                           f"the result returned for one assignment of values is overwritten by the next evaluate() of the same expression, so r0 = E.evaluate(v0); E.evaluate(v1) leaves r0 != numpy(v0)",
                           loc=f"{ev.module.rel}:{r.lineno}", detail="shared-output-buffer", robust=True)
    rep.ob("R11.3", "package", True, f"{n_gi} __getitem__ and {n_ev} evaluate methods of optyx.core containers inspected for memoised views / shared output buffers", detail="memo-inventory", trivial=True)


def _container_like(node, fi):
    s = src(node)
    if s in ("self", "other", "left", "right", "vec", "vector", "self.vector", "other.vector", "self.left", "self.right"):
        owner = fi.cls.name if fi.cls is not None else ""
        if s == "self" and owner not in ("VectorVariable", "MatrixVariable"):
            return False
        return True
    return False
