"""C20 -- a failed or interrupted solve leaves process and problem intact.

R20.1 inventory of process-global writes in the whole package
R20.2 save / override / restore typestate for each of them (restore on every exit incl. every implicit exception)
R20.4 caches are published complete (no publish-then-fill; every key a consumer reads unconditionally is present
      when the cache object is published)
R20.5 the handler around each backend call returns FAILED or re-raises
"""

from __future__ import annotations

import ast

from ..astutil import dotted, src, walk_local, local_assignments, calls
from ..must import analyze
from ..report import AnalysisError
from .common import problem_model, problem_receivers, attr_writes, MUTATING_METHODS

# process-global setters (call form) and, where one exists, the getter that reads the same state
GLOBAL_SETTERS = {
    "sys.setrecursionlimit": "sys.getrecursionlimit",
    "sys.setswitchinterval": "sys.getswitchinterval",
    "sys.settrace": "sys.gettrace",
    "sys.setprofile": "sys.getprofile",
    "numpy.seterr": "numpy.geterr",
    "numpy.seterrcall": "numpy.geterrcall",
    "numpy.set_printoptions": "numpy.get_printoptions",
    "numpy.random.seed": None,
    "random.seed": None,
    "warnings.simplefilter": None,
    "warnings.filterwarnings": None,
    "warnings.resetwarnings": None,
    "os.putenv": None,
    "os.chdir": "os.getcwd",
    "os.umask": None,
    "signal.signal": "signal.getsignal",
    "locale.setlocale": "locale.getlocale",
    "threading.setprofile": None,
    "threading.settrace": None,
    "gc.disable": None,
    "gc.enable": None,
    "gc.set_threshold": "gc.get_threshold",
}
BACKENDS = {"scipy.optimize.minimize", "scipy.optimize.linprog", "scipy.optimize.milp", "scipy.optimize.least_squares"}


def resolve_dotted(d: str, aliases: dict) -> str:
    head, _, rest = d.partition(".")
    if head in aliases:
        return aliases[head] + ("." + rest if rest else "")
    return d


def module_names(aliases: dict) -> set:
    """Local names bound to modules (``import warnings`` / ``import numpy as np``)."""
    return {k for k, v in aliases.items() if "." not in v or v in ("numpy", "scipy") or v.split(".")[-1] == k and False}


def global_writes(prog, fi):
    """[(global-id, kind, node, value_node)] kind in {'attr', 'call'}."""
    aliases = prog.func_aliases(fi)
    mods = {k for k, v in aliases.items() if v in ("sys", "os", "warnings", "numpy", "scipy", "random", "signal", "locale", "threading", "gc", "logging", "builtins", "time", "math")
            or v.startswith("numpy.") and k in ("np",)}
    # any plain ``import X`` binding counts as a module name
    mods |= _plain_imports(fi.module.tree)
    out = []
    for n in walk_local(fi.node, include_self=False):
        if isinstance(n, (ast.Assign, ast.AugAssign, ast.AnnAssign)):
            targets = n.targets if isinstance(n, ast.Assign) else [n.target]
            for t in targets:
                if isinstance(t, ast.Attribute):
                    d = dotted(t)
                    if d and d.split(".")[0] in mods:
                        out.append((resolve_dotted(d, aliases), "attr", n, getattr(n, "value", None)))
                if isinstance(t, ast.Subscript):
                    d = dotted(t.value)
                    if d and resolve_dotted(d, aliases) in ("os.environ", "sys.modules", "sys.path", "warnings.filters"):
                        out.append((resolve_dotted(d, aliases), "attr", n, n.value))
        if isinstance(n, ast.Call):
            d = dotted(n.func)
            if d:
                r = resolve_dotted(d, aliases)
                if r in GLOBAL_SETTERS:
                    out.append((r, "call", n, n.args[0] if n.args else None))
                if r.rsplit(".", 1)[0] in ("sys.path", "warnings.filters", "os.environ") and r.rsplit(".", 1)[-1] in MUTATING_METHODS:
                    out.append((r.rsplit(".", 1)[0], "call", n, None))
    return out


_PI: dict = {}


def _plain_imports(tree):
    if id(tree) not in _PI:
        out = set()
        for n in ast.walk(tree):
            if isinstance(n, ast.Import):
                for a in n.names:
                    out.add(a.asname or a.name.split(".")[0])
        _PI[id(tree)] = out
    return _PI[id(tree)]


def _chain(fi):
    out = []
    p = fi
    while p is not None:
        out.append(p)
        p = p.parent
    return out


def _context_manager_pairs(prog, rep, inventory):
    """Save / override in ``K.__enter__`` and restore in ``K.__exit__`` of a context-manager class, the saved value
    living in an instance attribute.  Python runs __exit__ on every exit of the with-body (return, exception, break),
    so the typestate obligation becomes: (a) __enter__ saves before it overrides and nothing after the override can
    raise inside __enter__; (b) __exit__ restores from the saved attribute on every path before anything that can
    raise; (c) the saved attribute is written nowhere else; (d) every instance is entered only by ``with``."""
    handled = set()
    by_cls = {}
    for (qual, g) in inventory:
        fi = prog.functions[qual]
        if fi.cls is not None and fi.name in ("__enter__", "__exit__"):
            by_cls.setdefault((fi.cls.name, g), {})[fi.name] = fi
    for (cname, g), ms in sorted(by_cls.items()):
        C = prog.cls(cname)
        construct = f"{cname}:{g}"
        if "__enter__" not in ms:
            continue
        ent = ms["__enter__"]
        ext = C.methods.get("__exit__")
        aliases = prog.func_aliases(ent)
        self_e = ent.node.args.args[0].arg

        def reads_global(v, al):
            return isinstance(v, ast.Attribute) and dotted(v) and resolve_dotted(dotted(v), al) == g

        # (a) straight-line __enter__: self.A = <global> ... <global> = override
        saves, overrides = [], []
        for i, st in enumerate(ent.node.body):
            if isinstance(st, ast.Assign) and len(st.targets) == 1:
                t = st.targets[0]
                if isinstance(t, ast.Attribute) and isinstance(t.value, ast.Name) and t.value.id == self_e and reads_global(st.value, aliases):
                    saves.append((i, t.attr))
                elif isinstance(t, ast.Attribute) and dotted(t) and resolve_dotted(dotted(t), aliases) == g:
                    overrides.append((i, st))
        handled.add((ent.qual, g))
        if ext is not None:
            handled.add((ext.qual, g))
        init_save = False
        if not saves:
            # the previous value may be captured when the instance is created: `self.A = <global>` in __init__
            ini = C.methods.get("__init__")
            if ini is not None:
                al0 = prog.func_aliases(ini)
                self_i = ini.node.args.args[0].arg
                for st in ini.node.body:
                    if isinstance(st, ast.Assign) and len(st.targets) == 1 and isinstance(st.targets[0], ast.Attribute) and isinstance(st.targets[0].value, ast.Name) and st.targets[0].value.id == self_i:
                        if reads_global(st.value, al0):
                            saves.append((-1, st.targets[0].attr))
                            init_save = True
                        elif isinstance(st.value, ast.Name):
                            # self.A = <parameter> whose DEFAULT is the global read: evaluated once, when the class body
                            # is executed, not when the instance is created
                            a_ = ini.node.args
                            defaults = dict(zip([x.arg for x in a_.args][::-1], a_.defaults[::-1]))
                            d_ = defaults.get(st.value.id)
                            if d_ is not None and reads_global(d_, al0):
                                uses_default = []
                                for f_ in prog.functions.values():
                                    for n_ in walk_local(f_.node, include_self=False):
                                        if isinstance(n_, ast.Call) and dotted(n_.func) == cname and st.value.id not in [k.arg for k in n_.keywords] and len(n_.args) < [x.arg for x in a_.args].index(st.value.id):
                                            uses_default.append((f_, n_))
                                if uses_default:
                                    f_, n_ = uses_default[0]
                                    rep.ob("R20.2", construct, False, f"{cname}.__init__ takes the value to restore from the DEFAULT of parameter `{st.value.id}` (= {src(d_)}), which is evaluated once at import; {f_.name} creates the instance without passing it, so on exit {g} is set to the import-time value, not to the one that was active before the solve", loc=f"{ini.module.rel}:{ini.node.lineno}", detail="save-at-import")
                                    saves.append((-1, st.targets[0].attr))
                                    init_save = True
        if not saves:
            reads_anywhere = [m_.name for m_ in C.methods.values() for x_ in walk_local(m_.node, include_self=False)
                              if isinstance(x_, ast.Attribute) and isinstance(x_.ctx, ast.Load) and dotted(x_) and resolve_dotted(dotted(x_), prog.func_aliases(m_)) == g]
            if reads_anywhere:
                rep.undecided(f"{construct}: {cname}.{reads_anywhere[0]} reads {g}, but not in the `self.<attr> = {g}` form this rule follows; where the previous value is kept is not decided")
                continue
            rep.ob("R20.2", construct, False, f"{g} is overridden in {cname}.__enter__ and no method of {cname} ever reads its previous value: __exit__ cannot restore it", loc=ent.loc, detail="no-save")
            continue
        attr = saves[0][1]
        nested_over = [n for n in walk_local(ent.node, include_self=False) if isinstance(n, ast.Assign) and any(isinstance(t, ast.Attribute) and dotted(t) and resolve_dotted(dotted(t), aliases) == g for t in n.targets)]
        if len(nested_over) != len(overrides):
            rep.undecided(f"{construct}: __enter__ overrides {g} inside a nested block; only straight-line enter bodies are recognised")
            continue
        ok = bool(overrides) and all(i > saves[0][0] for i, _ in overrides)
        rep.ob("R20.2", construct, ok, (f"the previous {g} is captured in self.{attr} when the instance is created, before __enter__ overrides it" if init_save else f"__enter__ saves the previous {g} in self.{attr} before overriding it") if ok else f"__enter__ overrides {g} before saving its previous value in self.{attr}", loc=ent.loc, detail="save-before-override")
        # nothing that can raise after the override (an exception in __enter__ skips __exit__)
        last = max(i for i, _ in overrides) if overrides else -1
        tail = ent.node.body[last + 1:]
        risky = [st for st in tail if any(isinstance(x, (ast.Call, ast.Raise, ast.Subscript, ast.BinOp, ast.Await)) for x in ast.walk(st))]
        rep.ob("R20.2", construct, not risky, "nothing after the override inside __enter__ can raise (an exception there would skip __exit__)" if not risky else f"`{src(risky[0])[:60]}` runs after the override inside __enter__ and may raise: __exit__ is then never called and {g} stays overridden", loc=f"{ent.module.rel}:{(risky[0].lineno if risky else ent.node.lineno)}", detail="enter-tail", robust=False)
        # (b) __exit__ restores first
        if ext is None:
            rep.ob("R20.2", construct, False, f"{cname} has no __exit__: {g} is never restored", loc=C.loc, detail="restore-on-all-exits")
            continue
        al2 = prog.func_aliases(ext)
        self_x = ext.node.args.args[0].arg

        def is_restore_stmt(st):
            return (isinstance(st, ast.Assign) and len(st.targets) == 1 and isinstance(st.targets[0], ast.Attribute) and dotted(st.targets[0])
                    and resolve_dotted(dotted(st.targets[0]), al2) == g and src(st.value) == f"{self_x}.{attr}")

        def transfer(node, facts):
            f = set(facts)
            if is_restore_stmt(node):
                f.add("restored")
            elif isinstance(node, ast.Assign) and any(isinstance(t, ast.Attribute) and dotted(t) and resolve_dotted(dotted(t), al2) == g for t in node.targets):
                f.discard("restored")
            return frozenset(f)

        def may_raise(node):
            if isinstance(node, (ast.FunctionDef, ast.Lambda, ast.ClassDef)) or is_restore_stmt(node):
                return False
            return any(isinstance(x, (ast.Call, ast.Raise, ast.Yield, ast.YieldFrom, ast.Await, ast.Subscript, ast.BinOp)) for x in ast.walk(node))

        exits, _ma = analyze(ext.node.body, transfer, frozenset(), may_raise, implicit="before")
        bad = [(k, n) for k, n, f in exits if "restored" not in f]
        rep.ob("R20.2", construct, not bad,
               f"{cname}.__exit__ re-installs self.{attr} as {g} on all {len(exits)} of its exits; Python calls __exit__ on every exit of the with-body" if not bad else
               f"{cname}.__exit__ can be left by {bad[0][0]} at line {bad[0][1].lineno if bad[0][1] is not None else '?'} without re-installing self.{attr} as {g}: the override outlives the with-block",
               loc=f"{ext.module.rel}:{bad[0][1].lineno}" if bad and bad[0][1] is not None else ext.loc, detail="restore-on-all-exits", extra={"exits": len(exits), "unprotected": len(bad)})
        rep.ob("R20.2", construct, True, f"restore site: {cname}.__exit__ writes {g} from self.{attr}", loc=ext.loc, detail="has-restore", trivial=True)
        # (c) the saved attribute is written only by __init__ (a constant) and __enter__
        stray = []
        for m in C.methods.values():
            for n in walk_local(m.node, include_self=False):
                if isinstance(n, (ast.Assign, ast.AugAssign, ast.AnnAssign)):
                    tg = n.targets if isinstance(n, ast.Assign) else [n.target]
                    for t in tg:
                        if isinstance(t, ast.Attribute) and t.attr == attr and isinstance(t.value, ast.Name) and t.value.id == m.node.args.args[0].arg:
                            if m.name == "__enter__" and reads_global(getattr(n, "value", None), aliases):
                                continue
                            if m.name == "__init__" and (isinstance(getattr(n, "value", None), ast.Constant) or init_save):
                                continue
                            if m.name == "__exit__" and isinstance(getattr(n, "value", None), ast.Constant) and any(
                                    isinstance(r_, ast.Assign) and r_.lineno < n.lineno and src(r_.value) == f"{m.node.args.args[0].arg}.{attr}" for r_ in walk_local(m.node, include_self=False)):
                                continue            # cleared after it was re-installed
                            stray.append((m, n))
        rep.ob("R20.2", construct, not stray, f"self.{attr} is written only by the save in __enter__" if not stray else f"self.{attr} is also written in {stray[0][0].name} (`{src(stray[0][1])[:50]}`): the restore may not install the original", loc=f"{C.module.rel}:{stray[0][1].lineno}" if stray else C.loc, detail="save-reassigned")
        # (d) instances are entered only through `with`
        uses = 0
        for fi in prog.functions.values():
            inst = {nm for nm, vals in local_assignments(fi.node).items() if any(isinstance(v, ast.Call) and dotted(v.func) == cname for v in vals)}
            for n in walk_local(fi.node, include_self=False):
                if isinstance(n, ast.Call) and dotted(n.func) == cname:
                    par = getattr(n, "_parent", None)
                    if isinstance(par, ast.withitem) or (isinstance(par, ast.Assign) and len(par.targets) == 1 and isinstance(par.targets[0], ast.Name)):
                        uses += 1
                    else:
                        rep.undecided(f"{construct}: instance created at {fi.module.rel}:{n.lineno} is not bound to a local name or used directly in `with`")
                if isinstance(n, ast.Call) and isinstance(n.func, ast.Attribute) and n.func.attr in ("__enter__", "__exit__") and isinstance(n.func.value, ast.Name) and n.func.value.id in inst:
                    rep.undecided(f"{construct}: {fi.name} calls {src(n.func)} by hand ({fi.module.rel}:{n.lineno}); whether every exit still reaches __exit__ is then a matter of that function's try/finally, which this rule does not follow")
        if init_save:
            # captured at creation: the instance must be created where it is entered (a module-level / long-lived
            # instance would restore a stale value)
            for fi in prog.functions.values():
                for n in walk_local(fi.node, include_self=False):
                    if isinstance(n, ast.withitem) and isinstance(n.context_expr, ast.Name):
                        vals = [v for v in local_assignments(fi.node).get(n.context_expr.id, []) if isinstance(v, ast.Call) and dotted(v.func) == cname]
                        if not vals and any(isinstance(v, ast.Call) and dotted(v.func) == cname for m_ in prog.modules.values() for st_ in m_.tree.body if isinstance(st_, ast.Assign) for v in [st_.value]):
                            rep.ob("R20.2", construct, False, f"a long-lived {cname} instance is entered in {fi.name}: the value it restores was captured when the instance was created, not before this solve", loc=f"{fi.module.rel}:{n.context_expr.lineno}", detail="stale-save")
        if uses == 0:
            rep.undecided(f"{construct}: no use of the context manager found")
    return handled


def check(prog, rep):
    # ------------------------------------------------------------------ R20.1 inventory
    inventory = {}
    for fi in prog.functions.values():
        for g, kind, node, val in global_writes(prog, fi):
            inventory.setdefault((fi.qual, g), []).append((kind, node, val))
    # module-level code writing globals
    for m in prog.modules.values():
        for n in m.tree.body:
            if isinstance(n, ast.Assign):
                for t in n.targets:
                    if isinstance(t, ast.Attribute) and dotted(t) and dotted(t).split(".")[0] in m.imports and "." not in m.imports[dotted(t).split(".")[0]]:
                        rep.ob("R20.1", f"{m.name}:<module>", False, f"module-level write of process-global {dotted(t)} at import time", loc=f"{m.rel}:{n.lineno}", detail=dotted(t))
    rep.saw("process-global write sites", [f"{q} -> {g} x{len(v)}" for (q, g), v in sorted(inventory.items())])
    rep.ob("R20.1", "package", True, f"{len(inventory)} (function, global) pairs write process-global state: "
           + ", ".join(f"{q.split(':')[1]}:{g}" for (q, g) in sorted(inventory)), trivial=True, detail="inventory")

    # ------------------------------------------------------------------ R20.2 typestate
    handled = _context_manager_pairs(prog, rep, inventory)
    for (qual, g), sites in sorted(inventory.items()):
        if (qual, g) in handled:
            continue
        fi = prog.functions[qual]
        aliases = prog.func_aliases(fi)
        assigns = local_assignments(fi.node)
        getter = GLOBAL_SETTERS.get(g)
        # saved locals: names assigned from a read of the same global (attribute load or getter call)
        saved = {}
        for nm, vals in assigns.items():
            for v in vals:
                if isinstance(v, ast.Attribute) and dotted(v) and resolve_dotted(dotted(v), aliases) == g:
                    saved[nm] = v
                if isinstance(v, ast.Call) and dotted(v.func) and getter and resolve_dotted(dotted(v.func), aliases) == getter:
                    saved[nm] = v
                # np.seterr(...) returns the old settings
                if isinstance(v, ast.Call) and dotted(v.func) and resolve_dotted(dotted(v.func), aliases) == g and g.endswith("seterr"):
                    saved[nm] = v
        construct = f"{qual.split(':')[1]}:{g}"
        if not saved:
            # a helper that installs / restores values it is GIVEN (context-manager generator, install(handler, restore)):
            # the save lives in its caller; this function-local typestate does not span the two
            fparams = {a.arg for a in fi.node.args.args + fi.node.args.kwonlyargs}
            from_param = [v_ for _k, _n, v_ in sites if isinstance(v_, ast.Name) and v_.id in fparams and v_.id not in assigns]
            if from_param:
                rep.undecided(f"{construct}: writes {g} from its parameter(s) ({', '.join(sorted({v_.id for v_ in from_param}))}); the save / restore pairing spans its callers and is not decided by this rule")
                continue
            getter_ = GLOBAL_SETTERS.get(g)
            reads_ = [x_ for x_ in ast.walk(fi.node) if isinstance(x_, (ast.Attribute, ast.Name)) and isinstance(getattr(x_, "ctx", None), ast.Load) and dotted(x_)
                      and resolve_dotted(dotted(x_), aliases) in ((g, getter_) if not g.endswith("seterr") else (getter_,))
                      and not (resolve_dotted(dotted(x_), aliases) == g and isinstance(getattr(x_, "_parent", None), ast.Call) and x_._parent.func is x_)]
            if reads_:
                rep.undecided(f"{construct}: the previous value of {g} is read at line {reads_[0].lineno}, but not into a local in the form this rule follows; the save / restore pairing is not decided")
                continue
            rep.ob("R20.2", construct, False,
                   f"{g} is written but its previous value is never read in this function: it cannot be restored",
                   loc=f"{fi.module.rel}:{sites[0][1].lineno}", detail="no-save")
            continue
        for nm in saved:
            if len(assigns[nm]) != 1:
                rep.ob("R20.2", construct, False, f"saved value '{nm}' is assigned {len(assigns[nm])} times; the restore may not use the original",
                       loc=fi.loc, detail="save-reassigned")

        def is_restore(val):
            return isinstance(val, ast.Name) and val.id in saved or (
                isinstance(val, ast.Starred) and isinstance(val.value, ast.Name) and val.value.id in saved
            ) or (isinstance(val, ast.Call) and False)

        site_nodes = {id(node): (kind, val) for kind, node, val in sites}
        overrides = [node for kind, node, val in sites if not is_restore(val) and not _kw_restore(node, saved)]
        restores = [node for kind, node, val in sites if is_restore(val) or _kw_restore(node, saved)]
        if not overrides:
            raise AnalysisError(f"{construct}: every write looks like a restore; idiom not recognised")
        # the setter handed over as a value (stack.callback(setter, saved), partial(setter, saved), atexit ...): the restore
        # is deferred to machinery this typestate does not model
        deferred = [x for x in walk_local(fi.node, include_self=False)
                    if isinstance(x, (ast.Attribute, ast.Name)) and isinstance(getattr(x, "ctx", None), ast.Load) and dotted(x) and resolve_dotted(dotted(x), aliases) == g
                    and not (isinstance(getattr(x, "_parent", None), ast.Call) and x._parent.func is x)
                    and not isinstance(getattr(x, "_parent", None), ast.Attribute)]
        if not restores:
            handed = [x for x in walk_local(fi.node, include_self=False) if isinstance(x, ast.Call) and any(isinstance(a_, ast.Name) and a_.id in saved for a_ in list(x.args) + [k_.value for k_ in x.keywords])]
            if handed:
                rep.undecided(f"{construct}: the saved value is handed to `{src(handed[0].func)[:40]}` at line {handed[0].lineno} and no direct restore is written; whether that call re-installs it (and when) is not modelled")
                continue
        if deferred and GLOBAL_SETTERS.get(g) is not None:
            rep.undecided(f"{construct}: {g} is handed over as a value at line {deferred[0].lineno} (a deferred restore: callback / partial); when it runs is not modelled by this rule")
            continue

        def transfer(node, facts):
            f = set(facts)
            for sub in ([node] if isinstance(node, ast.stmt) else []) + [x for x in ast.walk(node)]:
                pass
            # order inside one statement does not matter here: one statement holds at most one event
            for x in ast.walk(node) if not isinstance(node, (ast.FunctionDef, ast.Lambda, ast.ClassDef)) else []:
                if isinstance(x, (ast.FunctionDef, ast.Lambda)):
                    continue
                if id(x) in site_nodes:
                    kind, val = site_nodes[id(x)]
                    if is_restore(val) or _kw_restore(x, saved):
                        f.add("intact")
                    else:
                        f.discard("intact")
            if isinstance(node, (ast.Assign, ast.AnnAssign)):
                tg = node.targets if isinstance(node, ast.Assign) else [node.target]
                for t in tg:
                    if isinstance(t, ast.Name) and t.id in saved and getattr(node, "value", None) is saved[t.id]:
                        f.add("saved")
            return frozenset(f)

        def may_raise(node):
            if isinstance(node, (ast.FunctionDef, ast.Lambda, ast.ClassDef)):
                return False
            for x in ast.walk(node):
                if any(x is r for r in restores):
                    continue  # assumption: re-installing the saved value does not fail
                if isinstance(x, (ast.Call, ast.Raise, ast.Yield, ast.YieldFrom, ast.Await, ast.Subscript, ast.BinOp)):
                    return True
            return False

        exits, ma = analyze(fi.node.body, transfer, frozenset({"intact"}), may_raise, implicit="before")
        # (a) saved before every override
        for ov in overrides:
            stmt = ov
            while id(stmt) not in ma.at and getattr(stmt, "_parent", None) is not None:
                stmt = stmt._parent
            facts = ma.at.get(id(stmt))
            if facts is None:
                raise AnalysisError(f"{construct}: override at line {ov.lineno} not reached by the analysis")
            rep.ob("R20.2", construct, "saved" in facts,
                   f"the previous value of {g} is saved in a local before the override at line {ov.lineno}"
                   if "saved" in facts else
                   f"override of {g} at line {ov.lineno} can execute before its previous value was saved",
                   loc=f"{fi.module.rel}:{ov.lineno}", detail="save-before-override")
        # (b) intact at every exit
        bad = [(k, n) for k, n, f in exits if "intact" not in f]
        kinds = sorted({k for k, _n, _f in exits})
        rep.ob("R20.2", construct, not bad,
               f"{g} is restored on all {len(exits)} exits of {fi.name} ({', '.join(kinds)}), i.e. whatever raises after the override passes through the restoring finally"
               if not bad else
               f"{g} is overridden but not restored when {fi.name} is left by {bad[0][0]} at line {bad[0][1].lineno if bad[0][1] is not None else '?'} "
               f"({src(bad[0][1])[:70] if bad[0][1] is not None else ''}); {len(bad)} of {len(exits)} exits are unprotected",
               loc=f"{fi.module.rel}:{bad[0][1].lineno}" if bad and bad[0][1] is not None else fi.loc, detail="restore-on-all-exits",
               extra={"exits": len(exits), "unprotected": len(bad)})
        rep.ob("R20.2", construct, bool(restores), f"{len(restores)} restore site(s) write {g} from the saved local", loc=fi.loc, detail="has-restore")

    # ------------------------------------------------------------------ R20.5 handlers around backend calls
    n_backend = 0
    for fi in prog.functions.values():
        aliases = prog.func_aliases(fi)
        for c in calls(fi.node):
            d = dotted(c.func)
            if not d or resolve_dotted(d, aliases) not in BACKENDS:
                continue
            n_backend += 1
            construct = f"{fi.qual.split(':')[1]}:{resolve_dotted(d, aliases).split('.')[-1]}"
            tr = c
            while tr is not None and not (isinstance(tr, ast.Try) and any(c is x for s in tr.body for x in ast.walk(s))):
                tr = getattr(tr, "_parent", None)
                if isinstance(tr, (ast.FunctionDef, ast.Lambda)):
                    tr = None
            if tr is None:
                rep.ob("R20.5", construct, True, "backend call is not wrapped: exceptions propagate to the caller unchanged", loc=f"{fi.module.rel}:{c.lineno}", detail="propagates")
                continue
            for h in tr.handlers:
                ok, why = _handler_fails_closed(h)
                if ok is None:
                    rep.undecided(f"{construct}: {why}")
                    continue
                rep.ob("R20.5", construct, ok, why, loc=f"{fi.module.rel}:{h.lineno}", detail=f"handler:{src(h.type) if h.type else 'bare'}")
    rep.saw("backend call sites", n_backend)
    if n_backend == 0:
        raise AnalysisError("no call to a SciPy backend found in the package (subject vanished)")

    # ------------------------------------------------------------------ R20.4 caches published complete
    pm = problem_model(prog)
    for a in sorted(pm.cache_attrs):
        for fi, n in pm.assigned_outside.get(a, []):
            if not isinstance(n, ast.Assign):
                rep.ob("R20.4", f"{fi.qual.split(':')[1]}:Problem.{a}", False, f"Problem.{a} is mutated in place ({src(n)[:60]}): an exception mid-way leaves a half-filled cache", loc=f"{fi.module.rel}:{n.lineno}", detail="in-place")
                continue
            recv = problem_receivers(fi)
            val = n.value
            construct = f"{fi.qual.split(':')[1]}:Problem.{a}"
            if isinstance(val, ast.Constant):
                rep.ob("R20.4", construct, True, f"published as a constant ({src(val)})", loc=f"{fi.module.rel}:{n.lineno}", detail=f"publish:{src(val)}", trivial=True)
                continue
            # mutation of the published object after publication (other than single-key inserts)
            later_fill = []
            names = {val.id} if isinstance(val, ast.Name) else set()
            # containers the published object holds by reference (a local list placed in the dict display) are part of it
            asg_ = local_assignments(fi.node)
            displays = [val] + ([v for v in asg_.get(val.id, []) if isinstance(v, ast.AST)] if isinstance(val, ast.Name) else [])
            for d_ in displays:
                parts = list(d_.values) if isinstance(d_, ast.Dict) else list(d_.elts) if isinstance(d_, (ast.List, ast.Tuple)) else [kw.value for kw in d_.keywords] if isinstance(d_, ast.Call) and dotted(d_.func) == "dict" else []
                names |= {p_.id for p_ in parts if isinstance(p_, ast.Name)}
            for s in walk_local(fi.node, include_self=False):
                if isinstance(s, ast.Assign) and getattr(s, "lineno", 0) < n.lineno and isinstance(s.value, ast.Name):
                    for t in s.targets:
                        if isinstance(t, ast.Subscript) and isinstance(t.value, ast.Name) and t.value.id in names:
                            names.add(s.value.id)
            for s in walk_local(fi.node, include_self=False):
                if getattr(s, "lineno", 0) <= n.lineno:
                    continue
                if isinstance(s, ast.Call) and isinstance(s.func, ast.Attribute) and s.func.attr in MUTATING_METHODS:
                    b = s.func.value
                    if (isinstance(b, ast.Name) and b.id in names) or (isinstance(b, ast.Attribute) and dotted(b.value) in recv and b.attr == a):
                        later_fill.append(s)
            empty = isinstance(val, (ast.Dict, ast.List, ast.Set)) and not (getattr(val, "keys", None) or getattr(val, "elts", None))
            if empty and not later_fill:
                # an empty container is only "unfinished" if this function goes on to fill it entry by entry
                for s in walk_local(fi.node, include_self=False):
                    if getattr(s, "lineno", 0) > n.lineno and isinstance(s, ast.Assign):
                        for t in s.targets:
                            if isinstance(t, ast.Subscript) and ((isinstance(t.value, ast.Name) and t.value.id in names) or (isinstance(t.value, ast.Attribute) and dotted(t.value.value) in recv and t.value.attr == a)):
                                later_fill.append(s)
                if not later_fill:
                    rep.ob("R20.4", construct, True, "published as an empty container that this function does not go on to fill (a reset)", loc=f"{fi.module.rel}:{n.lineno}", detail="publish-complete", trivial=True)
                    continue
            rep.ob("R20.4", construct, not later_fill and not empty,
                   f"published in one assignment from a finished value ({src(val)[:50]})"
                   if not later_fill and not empty else
                   f"published as {src(val)[:40]} and filled afterwards (line {later_fill[0].lineno if later_fill else n.lineno}): an exception in between leaves a partial cache that the next solve trusts",
                   loc=f"{fi.module.rel}:{n.lineno}", detail="publish-complete")
    # a verdict written before it is known: `P.a = <provisional>` ... work that can raise ... `P.a = <final>` in one
    # function.  An exception in between leaves the provisional value in the cache, and the next solve trusts it.
    for a in sorted(pm.cache_attrs):
        by_fn = {}
        for fi, n in pm.assigned_outside.get(a, []):
            if isinstance(n, ast.Assign):
                by_fn.setdefault(fi.qual, (fi, []))[1].append(n)
        for fi, ns in by_fn.values():
            for n1 in ns:
                if isinstance(n1.value, ast.Constant) and n1.value.value is None:
                    continue            # the "not known yet" value the invalidator also writes
                blk = None
                par_ = getattr(n1, "_parent", None)
                for field in ("body", "orelse", "finalbody"):
                    lst = getattr(par_, field, None)
                    if isinstance(lst, list) and any(n1 is x for x in lst):
                        blk = lst
                if blk is None:
                    continue
                i = next(k for k, x in enumerate(blk) if x is n1)
                between = []
                for st in blk[i + 1:]:
                    later = [n2 for n2 in ns if n2 is not n1 and any(n2 is y for y in ast.walk(st))]
                    risky = [y for y in ast.walk(st) if isinstance(y, ast.Call) and not any(y is z for n2 in later for z in ast.walk(n2)) and (dotted(y.func) or "") not in ("len", "isinstance", "id", "type")]
                    if later and (between or [y for y in risky if y.lineno < later[0].lineno]):
                        call_ = (between or risky)[0]
                        rep.ob("R20.4", f"{fi.qual.split(':')[1]}:Problem.{a}", False,
                               f"Problem.{a} is set to {src(n1.value)[:30]} at line {n1.lineno} before the answer is known and corrected at line {later[0].lineno}; `{src(call_)[:40]}` (line {call_.lineno}) runs in between: "
                               f"if it raises, the provisional value stays in the cache and the next solve of the same problem takes it for the computed one",
                               loc=f"{fi.module.rel}:{n1.lineno}", detail="provisional-publish", robust=True)
                        break
                    if later:
                        break
                    between += risky
    # a fault recorded in the cache: a store into a Problem cache from inside an exception handler.  What the failed
    # attempt learnt ("no Hessian", "not linear") is then what the next solve starts from, unlike a solve that never failed.
    LOOKUP_EXC = {"KeyError", "LookupError", "AttributeError", "IndexError", "NameError"}
    for fi in prog.functions.values():
        recv = problem_receivers(fi)
        if not recv:
            continue
        asg = local_assignments(fi.node)
        for a in sorted(pm.cache_attrs):
            alias = {nm for nm, vals in asg.items() for v in vals if isinstance(v, ast.Attribute) and dotted(v.value) in recv and v.attr == a}

            def into_cache(t):
                if isinstance(t, ast.Subscript):
                    b = t.value
                    return (isinstance(b, ast.Name) and b.id in alias) or (isinstance(b, ast.Attribute) and dotted(b.value) in recv and b.attr == a)
                return isinstance(t, ast.Attribute) and dotted(t.value) in recv and t.attr == a

            for tr in walk_local(fi.node, include_self=False):
                if not isinstance(tr, ast.Try):
                    continue
                works = [y for st in tr.body for y in ast.walk(st) if isinstance(y, ast.Call) and (dotted(y.func) or "") not in ("len", "isinstance", "id", "type")]
                if not works:
                    continue
                for h in tr.handlers:
                    kinds = {src(k).split(".")[-1] for k in (h.type.elts if isinstance(h.type, ast.Tuple) else [h.type])} if h.type is not None else {"<bare>"}
                    if kinds <= LOOKUP_EXC:
                        continue        # the look-up idiom: try: v = cache[k]  except KeyError: v = cache[k] = build()
                    for st in h.body:
                        for y in ast.walk(st):
                            if isinstance(y, ast.Assign) and any(into_cache(t) for t in y.targets):
                                rep.ob("R20.4", f"{fi.qual.split(':')[1]}:Problem.{a}", False,
                                       f"`{src(y)[:50]}` (line {y.lineno}) writes into Problem.{a} from the handler of `except {', '.join(sorted(kinds))}` around `{src(works[0])[:40]}`: a failure of that call -- transient or not -- is "
                                       f"recorded in the cache, so the next solve of the same problem starts from what the failed attempt left and differs from a solve that never failed",
                                       loc=f"{fi.module.rel}:{y.lineno}", detail="fault-recorded-in-cache", robust=True)
    # a memo kept inside a Problem cache and updated in two steps, the key before the value it vouches for: if computing
    # the value raises, the memo says "this point has been evaluated" and hands out the value of another point.
    SAFE_CALLS = {"float", "int", "len", "bool", "isinstance", "np.array", "np.asarray", "np.copy", "tuple", "list", "id"}
    for fi in prog.functions.values():
        recv = problem_receivers(fi)
        if not recv:
            continue
        asg = local_assignments(fi.node)
        for a in sorted(pm.cache_attrs):
            alias = {nm for nm, vals in asg.items() for v in vals if isinstance(v, ast.Attribute) and dotted(v.value) in recv and v.attr == a}
            persist = {nm for nm, vals in asg.items() for v in vals if isinstance(v, ast.Subscript) and isinstance(v.value, ast.Name) and v.value.id in alias}
            if not persist:
                continue
            for blk_owner in ast.walk(fi.node):
                for field in ("body", "orelse", "finalbody"):
                    blk = getattr(blk_owner, field, None)
                    if not isinstance(blk, list):
                        continue
                    for s1, s2 in zip(blk, blk[1:]):
                        if not (isinstance(s1, ast.Assign) and isinstance(s2, ast.Assign) and len(s1.targets) == 1 and len(s2.targets) == 1):
                            continue
                        t1, t2 = s1.targets[0], s2.targets[0]
                        if not (isinstance(t1, ast.Subscript) and isinstance(t2, ast.Subscript) and isinstance(t1.value, ast.Name) and isinstance(t2.value, ast.Name)
                                and t1.value.id == t2.value.id and t1.value.id in persist and isinstance(t1.slice, ast.Constant) and isinstance(t2.slice, ast.Constant) and t1.slice.value != t2.slice.value):
                            continue
                        risky = [y for y in ast.walk(s2.value) if isinstance(y, ast.Call) and (dotted(y.func) or "?") not in SAFE_CALLS]
                        if not risky:
                            continue
                        P, k1, k2 = t1.value.id, t1.slice.value, t2.slice.value

                        def reads(node, key):
                            return [y for y in ast.walk(node) if isinstance(y, ast.Subscript) and isinstance(y.ctx, ast.Load) and isinstance(y.value, ast.Name) and y.value.id == P and isinstance(y.slice, ast.Constant) and y.slice.value == key]

                        tested = [t for t in ast.walk(fi.node) if isinstance(t, ast.If) and reads(t.test, k1) and not reads(t.test, k2)]
                        handed = [r for r in ast.walk(fi.node) if isinstance(r, ast.Return) and r.value is not None and reads(r.value, k2)]
                        if tested and handed:
                            rep.ob("R20.4", f"{fi.qual.split(':')[1]}:Problem.{a}[{P}]", False,
                                   f"`{P}` lives in Problem.{a} and is updated in two steps: `{src(s1)[:40]}` (line {s1.lineno}) records the key, then `{src(s2)[:40]}` (line {s2.lineno}) computes the value through "
                                   f"`{src(risky[0])[:30]}`; line {tested[0].lineno} trusts `{P}[{k1!r}]` alone.  If that call raises, the key of the failed evaluation stays next to the value of an earlier one, and "
                                   f"the next solve of the same problem is handed that value for a point it was never computed at",
                                   loc=f"{fi.module.rel}:{s1.lineno}", detail="torn-memo", robust=True)
    from .common import cache_inplace_mutations
    muts = cache_inplace_mutations(prog, pm)
    for f, n, what in muts:
        rep.ob("R20.4", f.qual.split(":")[1], False, what + ": if the backend raises between this modification and its undo, the problem's cache is left altered and the next solve differs from one that never failed", loc=f"{f.module.rel}:{n.lineno}", detail=f"in-place:{src(n)[:30]}")
    _cache_keys(prog, rep, pm)

    rep.expect_min("R20.2", 6)
    rep.expect_min("R20.5", 2)
    rep.expect_min("R20.4", 4)
    rep.explanation = (
        "Typestate argument over every interruption point: each process-global write (R20.1: inventory over the whole "
        "package) is checked with a structured must-analysis in which every statement that contains a call, subscript, "
        "yield or arithmetic is an implicit exception exit; the global must be restored from the value saved before the "
        "override on all exits (R20.2). Caches are published by one assignment of a finished value and every dict key a "
        "consumer reads unconditionally is present at publication (R20.4). Handlers around SciPy backends return FAILED "
        "or re-raise (R20.5)."
    )
    rep.assume("attribute stores on modules, sys.setrecursionlimit and list.append take effect as the last step of their statement")
    rep.assume("re-installing a saved global (the restore statement itself) does not raise")
    rep.assume("functools.lru_cache stores only on normal return (CPython semantics)")
    rep.note("one-bytecode window between reading the old hook and entering the try block is not modelled (asynchronous exceptions)")


def _kw_restore(node, saved) -> bool:
    """np.seterr(**old) style restore."""
    if isinstance(node, ast.Call):
        for kw in node.keywords:
            if kw.arg is None and isinstance(kw.value, ast.Name) and kw.value.id in saved:
                return True
    return False


def _handler_fails_closed(h):
    """Every way out of the handler is `raise` or `return Solution(status=...FAILED...)`."""
    outs = []
    for n in ast.walk(ast.Module(body=h.body, type_ignores=[])):
        if isinstance(n, ast.Return):
            outs.append(n)
    from ..astutil import terminal

    term = terminal(h.body)
    if term is None:
        # records the exception in a local for the code after the try to act on?  then the verdict depends on that code
        if h.name and any(isinstance(n, ast.Assign) and any(isinstance(x, ast.Name) and x.id == h.name for x in ast.walk(n.value)) for st in h.body for n in ast.walk(st)):
            return None, f"the handler stores the exception ({h.name}) and falls through: what the code after the try does with it is not followed"
        if any(isinstance(n, (ast.Assign, ast.AugAssign, ast.AnnAssign)) for st in h.body for n in ast.walk(st)):
            return None, "the handler records something in a local and falls through: what the code after the try does with it is not followed"
        return False, "the handler can fall through and continue the solve with no result (exception swallowed)"
    for r in outs:
        v = r.value
        ok = False
        if isinstance(v, ast.Call):
            for kw in v.keywords:
                if kw.arg == "status" and src(kw.value).endswith("FAILED"):
                    ok = True
            if v.args and src(v.args[0]).endswith("FAILED"):
                ok = True
        if not ok:
            if v is None or isinstance(v, ast.Constant):
                return False, f"the handler returns {src(v)[:60] if v is not None else 'None'} which is not a FAILED solution"
            if isinstance(v, ast.Call) and (dotted(v.func) or "").split(".")[-1] == "Solution":
                st_ = next((kw.value for kw in v.keywords if kw.arg == "status"), v.args[0] if v.args else None)
                if st_ is not None and isinstance(st_, ast.Attribute) and src(st_.value).split(".")[-1] == "SolverStatus":
                    return False, f"the handler returns {src(v)[:60]}, a solution whose status is {st_.attr}, not FAILED"
            return None, f"the handler returns {src(v)[:60]}; whether that is a FAILED solution is not visible here (built elsewhere)"
    return True, "every exit of the handler is `raise` or `return Solution(status=FAILED)`"


def _cache_keys(prog, rep, pm):
    """Every key a consumer reads unconditionally from a dict-valued cache is stored by the producer on every
    path before the dict is returned/published."""
    for a in sorted(pm.cache_attrs):
        consumers = []
        for fi in prog.functions.values():
            recv = problem_receivers(fi)
            if not recv:
                continue
            assigns = local_assignments(fi.node)
            alias = {nm for nm, vals in assigns.items() for v in vals if isinstance(v, ast.Attribute) and dotted(v.value) in recv and v.attr == a}
            if alias:
                consumers.append((fi, alias, assigns))
        for fi, alias, assigns in consumers:
            # keys guaranteed present: must-analysis with branch refinement on `"k" in alias` tests
            def key_of(sub):
                if isinstance(sub, ast.Subscript) and isinstance(sub.value, ast.Name) and sub.value.id in alias and isinstance(sub.slice, ast.Constant):
                    return sub.slice.value
                return None

            reads = {}

            def transfer(node, facts):
                f = set(facts)
                if isinstance(node, (ast.FunctionDef, ast.Lambda, ast.ClassDef)):
                    return facts
                for x in ast.walk(node):
                    k = key_of(x)
                    if k is not None and isinstance(x.ctx, ast.Load):
                        reads.setdefault(k, []).append((x, k in facts))
                for x in ast.walk(node):
                    k = key_of(x)
                    if k is not None and isinstance(x.ctx, ast.Store):
                        f.add(k)
                return frozenset(f)

            def branch(test, pol, facts):
                t = test
                neg = False
                if isinstance(t, ast.UnaryOp) and isinstance(t.op, ast.Not):
                    t, neg = t.operand, True
                if isinstance(t, ast.Compare) and len(t.ops) == 1 and isinstance(t.left, ast.Constant) and isinstance(t.comparators[0], ast.Name) and t.comparators[0].id in alias:
                    is_in = isinstance(t.ops[0], ast.In)
                    is_notin = isinstance(t.ops[0], ast.NotIn)
                    if is_in or is_notin:
                        present_when = (is_in != neg)
                        if pol == present_when:
                            return facts | {t.left.value}
                return facts

            analyze(fi.node.body, transfer, frozenset(), lambda n: False, branch=branch)
            uncond = sorted(k for k, lst in reads.items() if any(not guarded for _x, guarded in lst))
            if not uncond:
                continue
            # keys present in the object at the moment it is published to Problem.<a>
            prod_keys = None
            for pfi, pn in pm.assigned_outside.get(a, []):
                if not isinstance(pn, ast.Assign) or isinstance(pn.value, ast.Constant):
                    continue
                ks = _published_keys(prog, pfi, pn.value)
                if ks is None:
                    raise AnalysisError(f"cannot determine the keys of the value published to Problem.{a} in {pfi.qual}")
                prod_keys = ks if prod_keys is None else prod_keys & ks
            if prod_keys is None:
                raise AnalysisError(f"no publication site of Problem.{a} found")
            for k in uncond:
                if k not in prod_keys:
                    # a guard this must-analysis does not read (a test mentioning the key in another form, a KeyError handler)?
                    from ..astutil import dominating_guards as _dg, preceding_exit_guards as _pg
                    other = False
                    for x_, guarded_ in reads[k]:
                        if guarded_:
                            continue
                        for t_, _pol in _dg(x_) + _pg(x_):
                            if any(isinstance(c_, ast.Constant) and c_.value == k for c_ in ast.walk(t_)) or any(isinstance(c_, ast.Call) and any(isinstance(y_, ast.Name) and y_.id in alias for y_ in ast.walk(c_)) for c_ in ast.walk(t_)):
                                other = True
                        p_ = getattr(x_, "_parent", None)
                        while p_ is not None and p_ is not fi.node:
                            if isinstance(p_, ast.Try) and p_.handlers and any(x_ is y_ for st_ in p_.body for y_ in ast.walk(st_)):
                                other = True
                            p_ = getattr(p_, "_parent", None)
                    if other:
                        rep.undecided(f"R20.4 Problem.{a}[{k!r}]: read in {fi.name} under a test / handler that this rule does not interpret; whether a cache published without the key can reach the read is not decided")
                        continue
                rep.ob("R20.4", f"Problem.{a}[{k!r}]", k in prod_keys,
                       f"key {k!r} read unconditionally in {fi.name} is stored on every path of the producer before publication"
                       if k in prod_keys else
                       f"key {k!r} is read unconditionally in {fi.name} but the producer does not store it on every path: a cache published without it breaks the next solve",
                       loc=fi.loc, detail="key-present")


def _published_keys(prog, fi, val, depth=0):
    if isinstance(val, ast.Dict):
        return {k.value for k in val.keys if isinstance(k, ast.Constant)}
    if isinstance(val, ast.Call) and isinstance(val.func, ast.Name):
        if val.func.id == "dict" and not val.args:
            return {kw.arg for kw in val.keywords if kw.arg}
        pf = prog.functions.get(f"{fi.module.name}:{val.func.id}")
        if pf is not None:
            return _must_keys(pf)
        return None
    if isinstance(val, ast.Name) and depth < 3:
        assigns = local_assignments(fi.node)
        out = None
        for v in assigns.get(val.id, []):
            if isinstance(v, ast.Attribute):
                continue  # alias of the already published cache
            ks = _published_keys(prog, fi, v, depth + 1)
            if ks is None:
                return None
            out = ks if out is None else out & ks
        return out
    return None


def _literal_keys(v):
    """keys of a dict display / dict(...) call; None when some part is not a literal key (a ** expansion, a computed key)"""
    if isinstance(v, ast.Dict):
        if any(k is None or not isinstance(k, ast.Constant) for k in v.keys):
            return None
        return {k.value for k in v.keys}
    if isinstance(v, ast.Call) and dotted(v.func) == "dict" and not v.args:
        if any(kw.arg is None for kw in v.keywords):
            return None
        return {kw.arg for kw in v.keywords}
    return None


def _must_keys(pf):
    """Keys stored into the returned dict on every path to every return of producer ``pf``; None when a return value
    is neither a local dict built in the function nor a dict display."""
    all_rets = [n for n in walk_local(pf.node, include_self=False) if isinstance(n, ast.Return) and n.value is not None]
    if not all_rets:
        return None
    direct = [n for n in all_rets if not isinstance(n.value, ast.Name)]
    if direct:
        keys = None
        for n in all_rets:
            ks = _literal_keys(n.value)
            if ks is None:
                return None
            keys = ks if keys is None else keys & ks
        return keys
    rets = all_rets
    if len({n.value.id for n in rets}) != 1:
        return None
    name = rets[0].value.id
    init = set()

    def transfer(node, facts):
        f = set(facts)
        if isinstance(node, (ast.FunctionDef, ast.Lambda, ast.ClassDef)):
            return facts
        if isinstance(node, (ast.Assign, ast.AnnAssign)):
            tg = node.targets if isinstance(node, ast.Assign) else [node.target]
            for t in tg:
                if isinstance(t, ast.Name) and t.id == name:
                    ks = _literal_keys(node.value)
                    f = set(ks) if ks is not None else {"?unknown"}
        for x in ast.walk(node):
            if isinstance(x, ast.Subscript) and isinstance(x.ctx, ast.Store) and isinstance(x.value, ast.Name) and x.value.id == name and isinstance(x.slice, ast.Constant):
                f.add(x.slice.value)
        return frozenset(f)

    exits, _ = analyze(pf.node.body, transfer, frozenset(), lambda n: False)
    keys = None
    for k, n, f in exits:
        if k == "return":
            if "?unknown" in f:
                return None
            keys = set(f) if keys is None else keys & set(f)
    return keys
