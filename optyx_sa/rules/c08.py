"""C08 -- linear problems are solved to the true LP optimum with the true status (WIRING CLAUSE ONLY).

Compositional: C04 (only affine models are routed), C05 (matrices denote the model), C07 (sign, constant) carry the
semantics; this check decides the remaining wiring:

R08.1 routing: "auto" reaches the LP solver iff the linearity predicate holds; "linprog"/"highs*" reach it with the
      method forwarded; no HiGHS method name can reach the NLP solver; the LP solver re-validates linearity
R08.2 each linprog keyword is fed from the LPData field of the same name; pairs are passed together; c negated
      iff maximise
R08.3 status ladder = R06.5 (re-evaluated here)   R08.4 the LP cache is the only state reused across solves
"""

from __future__ import annotations

import ast
import re

from ..astutil import dotted, src, walk_local, local_assignments, calls, dominating_guards, op_test, reaching_value
from ..logic import formula, And, Or, Not, atom, TRUE, counterexample
from ..report import AnalysisError, Report
from .c06 import path_condition, _check_linprog
from .c18 import backend_calls

HIGHS = ("highs", "highs-ds", "highs-ipm")


def _routing_by_scenario(prog, rep, solve, lp_entries, nlp_entries):
    """R08.1: Problem.solve is walked for every (method literal, problem linear?) scenario, tracking rebinding of
    ``method``; the solver entry the walk returns through and the ``method=`` it is given are compared with the
    routing table.  Independent of how the ladder is written (early returns, rebinding to 'linprog', merged tests)."""
    from ..scenario import Explorer, TooManyPaths

    UNK = "?"
    NLP = "<nlp-choice>"
    auto = prog.lookup_method("Problem", "_auto_select_method")
    auto_rets = [r.value for r in walk_local(auto.node) if isinstance(r, ast.Return)] if auto else []
    auto_ok = bool(auto_rets) and all(isinstance(v, ast.Constant) and isinstance(v.value, str) and v.value not in ("linprog",) + HIGHS for v in auto_rets)

    def value(e, env, linear):
        if isinstance(e, ast.Constant):
            return e.value
        if isinstance(e, ast.Dict) and all(isinstance(k_, ast.Constant) for k_ in e.keys):
            return ("dict", tuple((k_.value, value(v_, env, linear)) for k_, v_ in zip(e.keys, e.values)))
        if isinstance(e, ast.Name):
            return env.get(e.id, UNK)
        if isinstance(e, ast.IfExp):
            t = truth(e.test, env, linear)
            if t is None:
                a, b = value(e.body, env, linear), value(e.orelse, env, linear)
                return a if a == b else UNK
            return value(e.body if t else e.orelse, env, linear)
        if isinstance(e, ast.Call) and isinstance(e.func, ast.Attribute) and e.func.attr == "_auto_select_method":
            return NLP if auto_ok else UNK
        return UNK

    def truth(t, env, linear):
        if isinstance(t, ast.UnaryOp) and isinstance(t.op, ast.Not):
            v = truth(t.operand, env, linear)
            return None if v is None else (not v)
        if isinstance(t, ast.BoolOp):
            vs = [truth(x, env, linear) for x in t.values]
            if isinstance(t.op, ast.And):
                return False if any(v is False for v in vs) else None if any(v is None for v in vs) else True
            return True if any(v is True for v in vs) else None if any(v is None for v in vs) else False
        if isinstance(t, ast.Call) and isinstance(t.func, ast.Attribute) and t.func.attr == "_is_linear_problem":
            return linear
        if isinstance(t, ast.Compare) and len(t.ops) == 1:
            l = value(t.left, env, linear)
            op = t.ops[0]
            c = t.comparators[0]
            if src(t.left).endswith("_objective") and isinstance(c, ast.Constant) and c.value is None:
                return isinstance(op, (ast.IsNot, ast.NotEq))
            if l == UNK:
                return None
            if isinstance(op, (ast.In, ast.NotIn)):
                if isinstance(c, (ast.Tuple, ast.List, ast.Set)) and all(isinstance(x, ast.Constant) for x in c.elts):
                    r = l in [x.value for x in c.elts]
                elif isinstance(c, ast.Name):
                    # module-level tuple of names
                    vals = _module_literal(prog, solve.module, c.id)
                    if vals is None:
                        return None
                    r = l in vals
                else:
                    return None
                return r if isinstance(op, ast.In) else (not r)
            r = value(c, env, linear)
            if r == UNK:
                return None
            if isinstance(op, (ast.Eq, ast.Is)):
                return l == r
            if isinstance(op, (ast.NotEq, ast.IsNot)):
                return l != r
        return None

    scenarios = [("auto", True), ("auto", False), ("linprog", None)] + [(h, None) for h in HIGHS] + [("SLSQP", None)]
    n = 0
    for lit, linear in scenarios:
        for lin in ((linear,) if linear is not None else (True, False)):
            def atom_truth(t, state, lin=lin):
                return truth(t, state["env"], lin)

            def on_stmt(st, state, lin=lin):
                if isinstance(st, (ast.Assign, ast.AnnAssign)) and getattr(st, "value", None) is not None:
                    tg = st.targets[0] if isinstance(st, ast.Assign) else st.target
                    if isinstance(tg, ast.Name):
                        state["env"][tg.id] = value(st.value, state["env"], lin)

            def on_branch(t, v, state):
                state["forks"].append(src(t)[:50])

            ex = Explorer(atom_truth, on_stmt, on_branch, max_paths=2048)
            try:
                paths = ex.explore(solve.node.body, {"env": {"method": lit}, "forks": []})
            except TooManyPaths:
                rep.undecided(f"Problem.solve: too many paths for method={lit!r}")
                continue
            outcomes = set()
            # a routing decision that hinges on a test the walk could not evaluate is not decided here
            import re as _re
            route_locals = {"method"} | {t_.id for st_ in ast.walk(solve.node) if isinstance(st_, (ast.Assign, ast.AnnAssign)) for t_ in (st_.targets if isinstance(st_, ast.Assign) else [st_.target]) if isinstance(t_, ast.Name)}
            guessed = sorted({fk for state, term in paths if term != "raise" for fk in state["forks"] if any(_re.search(rf"(?<![\w.]){_re.escape(nm)}(?!\w)", fk) for nm in route_locals)})
            if guessed:
                rep.undecided(f"Problem.solve[{lit}]: the route depends on `{guessed[0]}`, which the walk cannot evaluate")
                continue
            for state, term in paths:
                if term == "raise":
                    continue
                if isinstance(term, tuple) and isinstance(term[1], ast.Call) and dotted(term[1].func) in lp_entries | nlp_entries:
                    c = term[1]
                    kw = {k.arg: k.value for k in c.keywords if k.arg}
                    m = value(kw["method"], state["env"], lin) if "method" in kw else None
                    for k in c.keywords:
                        if k.arg is None and isinstance(k.value, ast.Name):
                            dv = state["env"].get(k.value.id)
                            if isinstance(dv, tuple) and dv and dv[0] == "dict" and "method" not in kw:
                                m = dict(dv[1]).get("method", m)
                    outcomes.add(("lp" if dotted(c.func) in lp_entries else "nlp", m, c.lineno))
                else:
                    outcomes.add(("other", src(term[1])[:40] if isinstance(term, tuple) else str(term), 0))
            n += 1
            where = lambda o: f"{solve.module.rel}:{o[2] or solve.node.lineno}"
            construct = f"Problem.solve[{lit}]"
            if any(o[0] == "other" for o in outcomes) or not outcomes:
                rep.undecided(f"{construct}: a path leaves Problem.solve without calling a solver entry ({sorted(outcomes, key=str)[:2]})")
                continue
            if lit == "auto":
                want = "lp" if lin else "nlp"
                bad = [o for o in outcomes if o[0] != want]
                rep.ob("R08.1", construct, not bad, f"auto with a {'linear' if lin else 'non-linear'} problem reaches the {'LP' if lin else 'NLP'} solver" if not bad else
                       ("auto routing to the LP solver is not guarded by the linearity predicate: a non-linear problem reaches linprog" if not lin else "a linear problem under auto is sent to the NLP solver"),
                       loc=where(bad[0]) if bad else solve.loc, detail="auto-iff-linear" if not lin else "auto-linear-not-nlp")
                if lin and not bad:
                    okm = all(o[1] in (None, "highs") for o in outcomes)
                    rep.ob("R08.1", construct, okm, "auto leaves the HiGHS variant to the LP solver" if okm else f"auto hands method={sorted(str(o[1]) for o in outcomes)} to the LP solver", loc=where(next(iter(outcomes))), detail="auto-method")
            elif lit == "SLSQP":
                bad = [o for o in outcomes if o[0] != "nlp"]
                rep.ob("R08.1", construct, not bad, "an NLP method name reaches the NLP solver" if not bad else "an NLP method name is routed to the LP solver", loc=where(bad[0]) if bad else solve.loc, detail="nlp-stays-nlp")
            else:
                leak = [o for o in outcomes if o[0] != "lp"]
                rep.ob("R08.1", construct, not leak, f"method={lit!r} is routed to the LP solver" if not leak else f"method={lit!r} can fall through to the NLP solver (scipy.optimize.minimize has no such method)", loc=where(leak[0]) if leak else solve.loc, detail="routed-to-lp")
                if not leak:
                    if lit in HIGHS:
                        fwd = all(o[1] == lit for o in outcomes)
                        rep.ob("R08.1", construct, fwd, "the requested HiGHS variant is forwarded" if fwd else f"method={lit!r} reaches the LP solver without forwarding the variant (it receives method={sorted(str(o[1]) for o in outcomes)}): a different HiGHS algorithm runs", loc=where(next(iter(outcomes))), detail="variant-forwarded")
                    else:
                        okm = all(o[1] in (None, "highs") for o in outcomes)
                        rep.ob("R08.1", construct, okm, "linprog leaves the HiGHS variant to the LP solver" if okm else f"method='linprog' is handed on as method={sorted(str(o[1]) for o in outcomes)}, which scipy.optimize.linprog does not accept", loc=where(next(iter(outcomes))), detail="linprog-method")
    rep.saw("routing scenarios walked", n)


def _module_literal(prog, module, name):
    for st in module.tree.body:
        tg = st.targets[0] if isinstance(st, ast.Assign) and len(st.targets) == 1 else st.target if isinstance(st, ast.AnnAssign) else None
        if not (isinstance(tg, ast.Name) and tg.id == name) or getattr(st, "value", None) is None:
            continue
        v = st.value
        if isinstance(v, ast.Call) and dotted(v.func) in ("frozenset", "set", "tuple", "list") and len(v.args) == 1 and not v.keywords:
            v = v.args[0]
        if isinstance(v, (ast.Tuple, ast.List, ast.Set)) and all(isinstance(x, ast.Constant) for x in v.elts):
            return [x.value for x in v.elts]
    return None


def check(prog, rep):
    from . import pitfalls as _pit
    rep.section(_pit.report, prog, rep, 'R08.P', ['src/optyx/solvers/lp_solver.py'], ('P1', 'P2', 'P3'))
    P = prog.cls("Problem")
    solve = P.methods.get("solve")
    if solve is None:
        raise AnalysisError("Problem.solve not found")
    lp_entries = {fi.name for fi, c, w in backend_calls(prog) if w.endswith(".linprog")}
    nlp_entries = {fi.name for fi, c, w in backend_calls(prog) if w.endswith(".minimize")}
    if not lp_entries or not nlp_entries:
        raise AnalysisError("solver entries not found")
    lp_sites = [c for c in calls(solve.node) if dotted(c.func) in lp_entries]
    nlp_sites = [c for c in calls(solve.node) if dotted(c.func) in nlp_entries]
    if not lp_sites or not nlp_sites:
        raise AnalysisError("Problem.solve does not call both solver entries")
    _routing_by_scenario(prog, rep, solve, lp_entries, nlp_entries)

    # the LP entry re-validates linearity before extraction
    for fi, call, w in backend_calls(prog):
        if not w.endswith(".linprog"):
            continue
        from .common import helper_closure
        checks = [c for c in calls(fi.node) if dotted(c.func) == "is_linear" and c.lineno < call.lineno]
        # also in helpers called before the backend call (module-level, statement position)
        for h in helper_closure(prog, fi, depth=1):
            if h is fi or h.parent is not None:
                continue
            sites = [c for c in calls(fi.node) if dotted(c.func) == h.name and c.lineno < call.lineno]
            if sites:
                checks += [c for c in calls(h.node) if dotted(c.func) == "is_linear"]
        objs = any("objective" in src(c.args[0]) for c in checks if c.args)
        cons = any(".expr" in src(c.args[0]) for c in checks if c.args)
        rep.ob("R08.1", fi.name, objs and cons, "re-validates linearity of the objective and of every constraint before extraction" if objs and cons else "does not re-validate linearity of " + ("the objective" if not objs else "the constraints") + " before extracting matrices", loc=fi.loc, detail="revalidates")
        _wiring(prog, rep, fi, call)
        # R08.3
        sub = Report(rep.prop, rep.tier, quiet=True)
        _check_linprog(prog, sub, fi, call)
        for o in sub.obs:
            rep.ob("R08.3", o.construct, o.ok, o.msg, loc=o.loc, detail=o.detail)
        # R08.4
        reads = [n for h in helper_closure(prog, fi, depth=2) if h.module is fi.module for n in walk_local(h.node, include_self=False)
                 if isinstance(n, ast.Attribute) and n.attr.startswith("_") and isinstance(n.value, ast.Name) and n.value.id == "problem"]
        names = sorted({n.attr for n in reads})
        if names != ["_lp_cache"]:
            # reading no cache, or one more private attribute, is a different design, not a wrong one: what the extra state
            # is and who invalidates it is C13's question
            rep.undecided(f"{fi.name}: the per-problem state read across solves is {names}, not just ['_lp_cache'] as on the confirmed baseline; whether the LP data handed to linprog is still that of the current model is not decided here")
        else:
            rep.ob("R08.4", fi.name, True, f"the only per-problem state reused across solves is {names}" if names == ["_lp_cache"] else f"reads private problem state {names}", loc=fi.loc, detail="reused-state")
    from .common import cache_inplace_mutations, problem_model
    muts = [m for m in cache_inplace_mutations(prog, problem_model(prog)) if "lp" in m[0].module.name]
    for f, n, what in muts:
        rep.ob("R08.4", f.qual.split(":")[1], False, what + ": a repeated solve of the same LP uses altered matrices (e.g. the sign of c alternates between solves)", loc=f"{f.module.rel}:{n.lineno}", detail=f"in-place:{src(n)[:30]}")
    from .common import bound_expr_problem
    eb = prog.cls("LinearProgramExtractor").methods.get("extract_bounds")
    for n in walk_local(eb.node):
        if isinstance(n, ast.Assign) and isinstance(n.targets[0], ast.Name) and any(isinstance(x, ast.Attribute) and x.attr in ("lb", "ub") for x in ast.walk(n.value)):
            pr = bound_expr_problem(n.value)
            rep.ob("R08.2", "extract_bounds", pr is None, f"{src(n.targets[0])} is the declared bound (None only when it is None)" if pr is None else pr + ": linprog solves a different (less bounded) LP", loc=f"{eb.module.rel}:{n.lineno}", detail=f"bound-value:{src(n.targets[0])}")
    rep.ob("R08.4", "lp cache", not muts, "the cached LPData is only read, never modified in place", detail="cache-read-only", loc=None)
    # artefacts built under one sense (negated callables, LPData.sense / sign of c) are only valid while the sense
    # stands: every public edit of the sense must invalidate them (the must-analysis of C13 R13.1, re-evaluated here)
    from ..report import Report as _Report
    from . import c13 as _c13
    _sub = _Report(rep.prop, rep.tier, quiet=True)
    try:
        _c13.check(prog, _sub)
    except AnalysisError as e:
        rep.undecided(f"sense-edit invalidation (C13 R13.1): {e}")
    else:
        for o in _sub.obs:
            if o.rule == "R13.1" and o.construct in ("Problem.minimize", "Problem.maximize"):
                rep.ob("R08.4", o.construct, o.ok, ("switching the sense invalidates what was built under the old one: " if o.ok else "a sense switch can keep artefacts built under the old sense (negated callables / LP data) while the reported value is un-negated under the new one: ") + o.msg, loc=o.loc, detail="sense-edit:" + o.detail)
    rep.expect_min("R08.1", 12)
    rep.expect_min("R08.2", 7)
    rep.expect_min("R08.3", 4)
    rep.explanation = (
        "WIRING CLAUSE ONLY. Truth-table over the guards of Problem.solve decides which method strings reach which "
        "solver entry; keyword-by-keyword def-use decides that every linprog argument is the LPData field of the same "
        "name (pairs together, c negated iff max); the status ladder is compared with SciPy's documented codes. That the "
        "optimum equals an independent formulation's optimum follows only in composition with C04, C05, C07 and from "
        "HiGHS itself, which is not analysed."
    )
    rep.assume("HiGHS returns the true optimum/status of the matrices it is given")


def _reachable_with(pc, lit) -> bool:
    """Can the path condition hold when `method` is the string lit?  Atoms about method are fixed accordingly."""
    from ..logic import all_assignments

    atoms = sorted(pc.atoms())
    for env in all_assignments(atoms):
        good = True
        for a in atoms:
            if a.startswith("method == "):
                want = a == f"method == '{lit}'"
                if env[a] != want:
                    good = False
            elif a.startswith("method in "):
                want = f"'{lit}'" in a
                if env[a] != want:
                    good = False
        if good and pc.ev(env):
            return True
    return False


def _wiring(prog, rep, fi, call):
    assigns = local_assignments(fi.node)
    # linprog(**kwargs_dict) or linprog(c=..., ...)
    kws = {}
    star = [k.value for k in call.keywords if k.arg is None]
    for k in call.keywords:
        if k.arg:
            kws[k.arg] = ([], k.value)
    if star and isinstance(star[0], ast.Name):
        d = star[0].id
        for v in assigns.get(d, []):
            if isinstance(v, ast.Dict):
                for kk, vv in zip(v.keys, v.values):
                    if isinstance(kk, ast.Constant):
                        kws[kk.value] = ([], vv)
        for n in walk_local(fi.node, include_self=False):
            if isinstance(n, ast.Assign) and isinstance(n.targets[0], ast.Subscript) and src(n.targets[0].value) == d and isinstance(n.targets[0].slice, ast.Constant):
                kws[n.targets[0].slice.value] = (dominating_guards(n), n.value)
    from .c07 import _is_lpdata
    lp = None
    for nm, vals in assigns.items():
        if any(isinstance(v, ast.AST) and ("_lp_cache" in src(v) or "extract(" in src(v)) for v in vals):
            lp = nm
    if lp is None:
        cands = [nm for nm in assigns if _is_lpdata(nm, assigns, fi, prog)]
        lp = cands[0] if len(cands) == 1 else None
    if lp is None:
        raise AnalysisError(f"{fi.name}: LPData local not found")

    def resolved(v):
        """Follow one local copy: `tmp = lp.field ... kwargs[field] = tmp`."""
        if isinstance(v, ast.Name):
            r = reaching_value(v, v.id)
            if r is not None:
                return r
        return v
    opaque = False
    if star and isinstance(star[0], ast.Name):
        # the keyword dictionary (or part of it) is produced by a call this rule does not look into
        opaque = any(isinstance(v, ast.Call) and not isinstance(v, ast.Dict) and dotted(v.func) not in ("dict",) for v in assigns.get(star[0].id, []) if isinstance(v, ast.AST))
    for field in ("A_ub", "b_ub", "A_eq", "b_eq", "bounds"):
        if field not in kws and opaque:
            rep.undecided(f"{fi.name}: linprog keywords are built by a helper call; whether {field} is passed is not decided on this view")
            continue
        if field not in kws:
            rep.ob("R08.2", f"{fi.name}:linprog({field}=)", False, f"linprog never receives {field}: that part of the model is dropped", loc=f"{fi.module.rel}:{call.lineno}", detail="fed-from-same-field")
            continue
        guards, v = kws[field]
        if src(resolved(v)) == f"{lp}.{field}":
            v = resolved(v)
        ok = src(v) == f"{lp}.{field}"
        if not ok:
            # a copy / array view of the field is the field; anything that is not recognisably a field of the record
            # is not decided (only `some other field of the same record` is positively wrong)
            core = resolved(v)
            for _ in range(3):
                if isinstance(core, ast.Call) and isinstance(core.func, ast.Attribute) and core.func.attr in ("copy", "astype", "tocsr", "toarray") and not core.args[1:]:
                    core = resolved(core.func.value)
                elif isinstance(core, ast.Call) and (dotted(core.func) or "") in ("np.asarray", "np.array", "np.ascontiguousarray", "np.copy", "list") and core.args:
                    core = resolved(core.args[0])
            if src(core) == f"{lp}.{field}":
                ok = True
                v = core
            elif not (isinstance(core, ast.Attribute) and src(core.value) == lp) and not (field == "bounds" and isinstance(v, ast.Name)):
                rep.undecided(f"{fi.name}:linprog({field}=): fed from `{src(v)[:50]}`, which is not recognisably a field of {lp}")
                continue
        if not ok and field == "bounds" and isinstance(v, ast.Name):
            # bounds are mutable user state and may be read per solve: extract_bounds(<problem.variables>)
            for val in assigns.get(v.id, []):
                if isinstance(val, ast.Call) and src(val.func).endswith("extract_bounds") and val.args and isinstance(val.args[0], ast.Name):
                    if any(isinstance(x, ast.AST) and src(x).endswith(".variables") for x in assigns.get(val.args[0].id, [])):
                        ok = True
            if not ok and not (isinstance(resolved(v), ast.Attribute) and src(resolved(v).value) == lp):
                rep.undecided(f"{fi.name}:linprog(bounds=): fed from `{src(v)[:50]}`; neither {lp}.bounds nor extract_bounds(problem.variables)")
                continue
        rep.ob("R08.2", f"{fi.name}:linprog({field}=)", ok, (f"{field} = {lp}.{field}" if src(v) == f"{lp}.{field}" else f"{field} = extract_bounds(problem.variables), read on every solve in column order") if ok else f"{field} is fed from {src(v)} instead of {lp}.{field}", loc=f"{fi.module.rel}:{getattr(v, 'lineno', call.lineno)}", detail="fed-from-same-field", robust=ok or (isinstance(resolved(v), ast.Attribute) and src(resolved(v).value) == lp))   # another field of the same record in this role is positively wrong
    for a, b in (("A_ub", "b_ub"), ("A_eq", "b_eq")):
        if a in kws and b in kws:
            ga = sorted(src(t) for t, p in kws[a][0])
            gb = sorted(src(t) for t, p in kws[b][0])
            rep.ob("R08.2", f"{fi.name}:linprog({a},{b})", ga == gb, "matrix and right-hand side are passed together under one guard" if ga == gb else f"{a} and {b} are passed under different guards ({ga} vs {gb})", loc=f"{fi.module.rel}:{call.lineno}", detail="pair-together")
    # c
    if "c" not in kws and opaque:
        rep.undecided(f"{fi.name}: linprog keywords are built by a helper call; the cost vector is not decided on this view")
        return
    if "c" not in kws:
        raise AnalysisError(f"{fi.name}: linprog cost vector not found")
    cv = kws["c"][1]
    # what the backend receives as cost vector, as a term in the atom BASE = <lp>.c, per world (C07's evaluation):
    # it must be +-BASE -- any copy / negation / in-place scaling of that field, nothing else mixed in
    from .c07 import _world_value
    from .. import algebra as al_
    vals = {}
    for world in ("max", "min"):
        try:
            vals[world] = _world_value(prog, fi, cv, world, "c")
        except AnalysisError:
            vals[world] = None
    if any(v is None for v in vals.values()):
        rep.undecided(f"{fi.name}:linprog(c=): what the cost vector is computed from is not interpretable (`{src(cv)[:40]}`)")
        return
    BASE = al_.A("BASE")
    ok = all(v.eq(BASE) or v.eq(al_.C(-1) * BASE) for v in vals.values())
    has_base = all("BASE" in v.key() for v in vals.values())
    if not ok and has_base and not all(set(re.findall(r"[A-Za-z_][A-Za-z_0-9.]*", v.key())) <= {"BASE"} for v in vals.values()):
        # BASE combined with something this rule cannot name: leave it to the reader of the undecided message
        rep.undecided(f"{fi.name}:linprog(c=): the cost vector is {vals['min'].key().replace('BASE', lp + '.c')}, not a plain copy of {lp}.c")
        return
    rep.ob("R08.2", f"{fi.name}:linprog(c=)", ok, f"c originates from {lp}.c (up to the sign for maximise)" if ok else
           f"the cost vector handed to linprog is {vals['min'].key().replace('BASE', lp + '.c')} (minimise) / {vals['max'].key().replace('BASE', lp + '.c')} (maximise), not {lp}.c",
           loc=f"{fi.module.rel}:{call.lineno}", detail="fed-from-same-field", robust=True)
    m = kws.get("method")
    rep.ob("R08.2", f"{fi.name}:linprog(method=)", m is not None and src(m[1]) == "method", "the requested method is handed to linprog" if m is not None and src(m[1]) == "method" else "the method argument is not handed to linprog", loc=f"{fi.module.rel}:{call.lineno}", detail="method")
