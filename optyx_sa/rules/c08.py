"""C08 -- linear problems are solved to the true LP optimum with the true status (WIRING CLAUSE ONLY).

Compositional: C04 (only affine models are routed), C05 (matrices denote the model), C07 (sign, constant) carry the
semantics; this check decides the remaining wiring:

R08.1 routing: "auto" reaches the LP solver iff the linearity predicate holds; "linprog"/"highs*" reach it with the
      method forwarded; no HiGHS method name can reach the NLP solver; the LP solver re-validates linearity
R08.2 each linprog keyword is fed from the LPData field of the same name; pairs are passed together; c negated
      iff maximise
R08.3 status ladder = R06.5 (re-evaluated here)   R08.4 the LP cache is the only state reused across solves
"""

from __future__ import annotations

import ast

from ..astutil import dotted, src, walk_local, local_assignments, calls, dominating_guards, op_test
from ..logic import formula, And, Or, Not, atom, TRUE, counterexample
from ..report import AnalysisError, Report
from .c06 import path_condition, _check_linprog
from .c18 import backend_calls

HIGHS = ("highs", "highs-ds", "highs-ipm")


def check(prog, rep):
    P = prog.cls("Problem")
    solve = P.methods.get("solve")
    if solve is None:
        raise AnalysisError("Problem.solve not found")
    lp_entries = {fi.name for fi, c, w in backend_calls(prog) if w.endswith(".linprog")}
    nlp_entries = {fi.name for fi, c, w in backend_calls(prog) if w.endswith(".minimize")}
    if not lp_entries or not nlp_entries:
        raise AnalysisError("solver entries not found")
    lp_sites = [c for c in calls(solve.node) if dotted(c.func) in lp_entries]
    nlp_sites = [c for c in calls(solve.node) if dotted(c.func) in nlp_entries]
    if not lp_sites or not nlp_sites:
        raise AnalysisError("Problem.solve does not call both solver entries")
    # --- which method literals are routed to the LP solver, and is `method` forwarded where it matters?
    routed = {}
    for c in lp_sites:
        pc = path_condition(c)
        kws = {k.arg: k.value for k in c.keywords if k.arg}
        for lit in ("auto", "linprog") + HIGHS:
            a = f"method == '{lit}'"
            grp = [x for x in pc.atoms() if x.startswith("method in ") and f"'{lit}'" in x]
            # reached when method == lit?
            env_ok = _reachable_with(pc, lit)
            if env_ok:
                routed.setdefault(lit, []).append((c, kws))
    for lit in ("linprog",) + HIGHS:
        ok = lit in routed
        rep.ob("R08.1", f"Problem.solve[{lit}]", ok, f"method={lit!r} is routed to the LP solver" if ok else f"method={lit!r} does not reach the LP solver", loc=solve.loc, detail="routed-to-lp")
        if lit in HIGHS and ok:
            fwd = all("method" in kws and src(kws["method"]) == "method" for _c, kws in routed[lit])
            rep.ob("R08.1", f"Problem.solve[{lit}]", fwd, "the requested HiGHS variant is forwarded (method=method)" if fwd else f"method={lit!r} reaches the LP solver without forwarding the variant: a different HiGHS algorithm runs", loc=f"{solve.module.rel}:{routed[lit][0][0].lineno}", detail="variant-forwarded")
    # auto: under the linearity predicate
    auto_sites = routed.get("auto", [])
    lin_atoms = set()
    ok_auto = False
    for c, _k in auto_sites:
        pc = path_condition(c)
        lin = [a for a in pc.atoms() if "linear" in a]
        lin_atoms |= set(lin)
        if lin and counterexample(pc, And(atom("method == 'auto'"), atom(lin[0]))) is None:
            ok_auto = True
    rep.ob("R08.1", "Problem.solve[auto]", ok_auto, f"auto reaches the LP solver exactly under {sorted(lin_atoms)}" if ok_auto else "auto routing to the LP solver is not guarded by the linearity predicate", loc=solve.loc, detail="auto-iff-linear")
    # no LP method literal reaches the NLP entry
    for c in nlp_sites:
        pc = path_condition(c)
        for lit in ("linprog",) + HIGHS:
            leak = _reachable_with(pc, lit)
            rep.ob("R08.1", f"Problem.solve->{dotted(c.func)}", not leak, f"method={lit!r} cannot reach the NLP solver" if not leak else f"method={lit!r} can fall through to the NLP solver (scipy.optimize.minimize has no such method)", loc=f"{solve.module.rel}:{c.lineno}", detail=f"no-leak:{lit}")
    # auto + linear must not reach NLP
    for c in nlp_sites:
        pc = path_condition(c)
        if lin_atoms:
            cx = counterexample(And(pc, atom("method == 'auto'")), Not(atom(sorted(lin_atoms)[0])))
            # after `method = self._auto_select_method()` the name is rebound, so only the structural fact counts:
            # the NLP call is not inside the linear branch
            inside = any(src(t) == sorted(lin_atoms)[0] and pol for t, pol in dominating_guards(c))
            rep.ob("R08.1", f"Problem.solve->{dotted(c.func)}", not inside, "the NLP call is outside the linear branch of auto" if not inside else "a linear problem under auto is sent to the NLP solver", loc=f"{solve.module.rel}:{c.lineno}", detail="auto-linear-not-nlp")

    # the LP entry re-validates linearity before extraction
    for fi, call, w in backend_calls(prog):
        if not w.endswith(".linprog"):
            continue
        checks = [c for c in calls(fi.node) if dotted(c.func) == "is_linear" and c.lineno < call.lineno]
        objs = any("objective" in src(c.args[0]) for c in checks if c.args)
        cons = any(".expr" in src(c.args[0]) for c in checks if c.args)
        rep.ob("R08.1", fi.name, objs and cons, "re-validates linearity of the objective and of every constraint before extraction" if objs and cons else "does not re-validate linearity of " + ("the objective" if not objs else "the constraints") + " before extracting matrices", loc=fi.loc, detail="revalidates")
        _wiring(prog, rep, fi, call)
        # R08.3
        sub = Report(rep.prop, rep.tier, quiet=True)
        _check_linprog(prog, sub, fi, call)
        for o in sub.obs:
            rep.ob("R08.3", o.construct, o.ok, o.msg, loc=o.loc, detail=o.detail)
        # R08.4
        reads = [n for n in walk_local(fi.node, include_self=False) if isinstance(n, ast.Attribute) and n.attr.startswith("_") and isinstance(n.value, ast.Name) and n.value.id == "problem"]
        names = sorted({n.attr for n in reads})
        rep.ob("R08.4", fi.name, names == ["_lp_cache"], f"the only per-problem state reused across solves is {names}" if names == ["_lp_cache"] else f"reads private problem state {names}", loc=fi.loc, detail="reused-state")
    from .common import cache_inplace_mutations, problem_model
    muts = [m for m in cache_inplace_mutations(prog, problem_model(prog)) if "lp" in m[0].module.name]
    for f, n, what in muts:
        rep.ob("R08.4", f.qual.split(":")[1], False, what + ": a repeated solve of the same LP uses altered matrices (e.g. the sign of c alternates between solves)", loc=f"{f.module.rel}:{n.lineno}", detail=f"in-place:{src(n)[:30]}")
    from .common import bound_expr_problem
    eb = prog.cls("LinearProgramExtractor").methods.get("extract_bounds")
    for n in walk_local(eb.node):
        if isinstance(n, ast.Assign) and isinstance(n.targets[0], ast.Name) and any(isinstance(x, ast.Attribute) and x.attr in ("lb", "ub") for x in ast.walk(n.value)):
            pr = bound_expr_problem(n.value)
            rep.ob("R08.2", "extract_bounds", pr is None, f"{src(n.targets[0])} is the declared bound (None only when it is None)" if pr is None else pr + ": linprog solves a different (less bounded) LP", loc=f"{eb.module.rel}:{n.lineno}", detail=f"bound-value:{src(n.targets[0])}")
    rep.ob("R08.4", "lp cache", not muts, "the cached LPData is only read, never modified in place", detail="cache-read-only", loc=None)
    # artefacts built under one sense (negated callables, LPData.sense / sign of c) are only valid while the sense
    # stands: every public edit of the sense must invalidate them (the must-analysis of C13 R13.1, re-evaluated here)
    from ..report import Report as _Report
    from . import c13 as _c13
    _sub = _Report(rep.prop, rep.tier, quiet=True)
    try:
        _c13.check(prog, _sub)
    except AnalysisError as e:
        rep.undecided(f"sense-edit invalidation (C13 R13.1): {e}")
    else:
        for o in _sub.obs:
            if o.rule == "R13.1" and o.construct in ("Problem.minimize", "Problem.maximize"):
                rep.ob("R08.4", o.construct, o.ok, ("switching the sense invalidates what was built under the old one: " if o.ok else "a sense switch can keep artefacts built under the old sense (negated callables / LP data) while the reported value is un-negated under the new one: ") + o.msg, loc=o.loc, detail="sense-edit:" + o.detail)
    rep.expect_min("R08.1", 12)
    rep.expect_min("R08.2", 7)
    rep.expect_min("R08.3", 4)
    rep.explanation = (
        "WIRING CLAUSE ONLY. Truth-table over the guards of Problem.solve decides which method strings reach which "
        "solver entry; keyword-by-keyword def-use decides that every linprog argument is the LPData field of the same "
        "name (pairs together, c negated iff max); the status ladder is compared with SciPy's documented codes. That the "
        "optimum equals an independent formulation's optimum follows only in composition with C04, C05, C07 and from "
        "HiGHS itself, which is not analysed."
    )
    rep.assume("HiGHS returns the true optimum/status of the matrices it is given")


def _reachable_with(pc, lit) -> bool:
    """Can the path condition hold when `method` is the string lit?  Atoms about method are fixed accordingly."""
    from ..logic import all_assignments

    atoms = sorted(pc.atoms())
    for env in all_assignments(atoms):
        good = True
        for a in atoms:
            if a.startswith("method == "):
                want = a == f"method == '{lit}'"
                if env[a] != want:
                    good = False
            elif a.startswith("method in "):
                want = f"'{lit}'" in a
                if env[a] != want:
                    good = False
        if good and pc.ev(env):
            return True
    return False


def _wiring(prog, rep, fi, call):
    assigns = local_assignments(fi.node)
    # linprog(**kwargs_dict) or linprog(c=..., ...)
    kws = {}
    star = [k.value for k in call.keywords if k.arg is None]
    for k in call.keywords:
        if k.arg:
            kws[k.arg] = ([], k.value)
    if star and isinstance(star[0], ast.Name):
        d = star[0].id
        for v in assigns.get(d, []):
            if isinstance(v, ast.Dict):
                for kk, vv in zip(v.keys, v.values):
                    if isinstance(kk, ast.Constant):
                        kws[kk.value] = ([], vv)
        for n in walk_local(fi.node, include_self=False):
            if isinstance(n, ast.Assign) and isinstance(n.targets[0], ast.Subscript) and src(n.targets[0].value) == d and isinstance(n.targets[0].slice, ast.Constant):
                kws[n.targets[0].slice.value] = (dominating_guards(n), n.value)
    lp = None
    for nm, vals in assigns.items():
        if any(isinstance(v, ast.AST) and ("_lp_cache" in src(v) or "extract(" in src(v)) for v in vals):
            lp = nm
    if lp is None:
        raise AnalysisError(f"{fi.name}: LPData local not found")
    for field in ("A_ub", "b_ub", "A_eq", "b_eq", "bounds"):
        if field not in kws:
            rep.ob("R08.2", f"{fi.name}:linprog({field}=)", False, f"linprog never receives {field}: that part of the model is dropped", loc=f"{fi.module.rel}:{call.lineno}", detail="fed-from-same-field")
            continue
        guards, v = kws[field]
        ok = src(v) == f"{lp}.{field}"
        if not ok and field == "bounds" and isinstance(v, ast.Name):
            # bounds are mutable user state and may be read per solve: extract_bounds(<problem.variables>)
            for val in assigns.get(v.id, []):
                if isinstance(val, ast.Call) and src(val.func).endswith("extract_bounds") and val.args and isinstance(val.args[0], ast.Name):
                    if any(isinstance(x, ast.AST) and src(x).endswith(".variables") for x in assigns.get(val.args[0].id, [])):
                        ok = True
        rep.ob("R08.2", f"{fi.name}:linprog({field}=)", ok, (f"{field} = {lp}.{field}" if src(v) == f"{lp}.{field}" else f"{field} = extract_bounds(problem.variables), read on every solve in column order") if ok else f"{field} is fed from {src(v)} instead of {lp}.{field}", loc=f"{fi.module.rel}:{getattr(v, 'lineno', call.lineno)}", detail="fed-from-same-field")
    for a, b in (("A_ub", "b_ub"), ("A_eq", "b_eq")):
        if a in kws and b in kws:
            ga = sorted(src(t) for t, p in kws[a][0])
            gb = sorted(src(t) for t, p in kws[b][0])
            rep.ob("R08.2", f"{fi.name}:linprog({a},{b})", ga == gb, "matrix and right-hand side are passed together under one guard" if ga == gb else f"{a} and {b} are passed under different guards ({ga} vs {gb})", loc=f"{fi.module.rel}:{call.lineno}", detail="pair-together")
    # c
    if "c" not in kws:
        raise AnalysisError(f"{fi.name}: linprog cost vector not found")
    cv = kws["c"][1]
    srcs = [src(x) for x in assigns.get(cv.id, [])] if isinstance(cv, ast.Name) else [src(cv)]
    ok = any(s == f"{lp}.c" for s in srcs)
    rep.ob("R08.2", f"{fi.name}:linprog(c=)", ok, f"c originates from {lp}.c" if ok else f"the cost vector originates from {srcs}, not from {lp}.c", loc=f"{fi.module.rel}:{call.lineno}", detail="fed-from-same-field")
    m = kws.get("method")
    rep.ob("R08.2", f"{fi.name}:linprog(method=)", m is not None and src(m[1]) == "method", "the requested method is handed to linprog" if m is not None and src(m[1]) == "method" else "the method argument is not handed to linprog", loc=f"{fi.module.rel}:{call.lineno}", detail="method")
