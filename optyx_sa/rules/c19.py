"""C19 -- derivative callables stay finite at singular points.

R19.1 every closure returned by a derivative factory whose term contains a singular primitive returns
      _sanitize_derivatives(<whole output>) (or np.diag of it) on every return
R19.2 the closures of one operator arm (dense / sparse) agree on whether they sanitise
R19.3 the sanitiser maps NaN -> 0, +inf -> +L, -inf -> -L (L > 0 finite), fast path only under all-finite
R19.4 the solver obtains its derivative callables only from those factories (plus flatten / negation wrappers)
"""

from __future__ import annotations

import ast

from ..astutil import dotted, src, walk_local, local_assignments, calls, if_chain, op_test, enclosing_function
from ..inline import bind_args, call_sites
from ..report import AnalysisError, Frag

DIFF_FUNCS = {"gradient", "compute_jacobian", "compute_hessian", "jacobian", "hessian"}
REGULAR_NP = {"sin", "cos", "exp", "sinh", "cosh", "tanh", "sign", "arctan", "abs", "absolute", "negative", "zeros", "ones",
              "full", "diag", "array", "asarray", "sum", "dot", "zeros_like", "ones_like", "eye", "arange", "multiply", "add", "subtract", "square"}
POLE_NP = {"tan", "log", "log2", "log10", "log1p", "sqrt", "arcsin", "arccos", "arctanh", "arccosh", "reciprocal", "divide", "true_divide", "float_power", "cbrt"}
WRAPPERS = {"reshape", "flatten", "ravel", "copy", "astype", "T"}


def returned_closures(prog, fi):
    """Nested defs / lambdas that the function returns (by name or inline)."""
    nested = {f.name: f for f in prog.nested_functions(fi) if f.parent is fi}
    out = []
    for n in walk_local(fi.node, include_self=False):
        if isinstance(n, ast.Return) and n.value is not None:
            v = n.value
            if isinstance(v, ast.Name) and v.id in nested:
                out.append((nested[v.id].node, n))
            elif isinstance(v, ast.Lambda):
                out.append((v, n))
    return out


def discover_factories(prog):
    """Derivative factories, found by role (see module doc of DESIGN §3 C19)."""
    seeds = []
    for fi in prog.functions.values():
        if not fi.module.name.startswith("optyx.core"):
            continue
        if fi.parent is not None:
            continue
        names = {dotted(c.func) for c in calls(fi.node, local=False)}
        if names & DIFF_FUNCS and returned_closures(prog, fi):
            seeds.append(fi)
    facts = {f.qual: f for f in seeds}
    # helpers whose closure result a seed returns or wraps
    changed = True
    while changed:
        changed = False
        for s in list(facts.values()):
            for c in calls(s.node):
                nm = dotted(c.func)
                if not nm or "." in nm:
                    continue
                tgt = None
                for q, f in prog.functions.items():
                    if f.name == nm and f.parent is None and f.cls is None and f.module.name.startswith("optyx.core"):
                        tgt = f
                if tgt is None or tgt.qual in facts or not returned_closures(prog, tgt):
                    continue
                par = getattr(c, "_parent", None)
                direct = isinstance(par, ast.Return)
                wrapped = False
                if isinstance(par, ast.Assign) and len(par.targets) == 1 and isinstance(par.targets[0], ast.Name):
                    local = par.targets[0].id
                    for cl, _r in returned_closures(prog, s):
                        for cc in calls(cl, local=False):
                            if isinstance(cc.func, ast.Name) and cc.func.id == local and _is_whole_result(cc, cl):
                                wrapped = True
                if direct or wrapped:
                    facts[tgt.qual] = tgt
                    changed = True
    return facts


def _is_whole_result(call, closure) -> bool:
    """call is the closure's returned value up to method wrappers: `return f(x).reshape(1, -1)` / `-f(x).flatten()`."""
    n = call
    p = getattr(n, "_parent", None)
    while p is not None and p is not closure:
        if isinstance(p, ast.Attribute) and p.attr in WRAPPERS:
            pass
        elif isinstance(p, ast.Call) and p.func is n:
            pass
        elif isinstance(p, ast.UnaryOp) and isinstance(p.op, ast.USub):
            pass
        elif isinstance(p, ast.BinOp) and isinstance(p.op, (ast.Mult, ast.Div)) and (p.left is n or isinstance(p.op, ast.Mult)):
            # scaling by a scalar that does not depend on the closure's input: sign * jfn(x)
            other = p.right if p.left is n else p.left
            xs = {a.arg for a in closure.args.args[:1]}
            if any(isinstance(y, ast.Name) and y.id in xs for y in ast.walk(other)) or any(isinstance(y, (ast.Call, ast.Subscript)) for y in ast.walk(other)):
                return False
        elif isinstance(p, ast.Call) and n in p.args and (dotted(p.func) or "") in ("np.negative", "np.asarray", "np.array", "np.atleast_1d", "np.atleast_2d", "np.ravel", "np.ascontiguousarray", "float"):
            pass
        elif isinstance(p, ast.Return):
            return True
        else:
            return False
        n = p
        p = getattr(p, "_parent", None)
    return isinstance(closure, ast.Lambda) and p is closure


# ---------------------------------------------------------------------------------------------------
# sign / zero analysis of NumPy-dialect terms over the closure input x

def _is_x(node, xs) -> bool:
    if isinstance(node, ast.Name) and node.id in xs:
        return True
    if isinstance(node, ast.Subscript) and isinstance(node.value, ast.Name) and node.value.id in xs:
        return True
    return False


class Term:
    """Classifier for one closure: which singular primitives can make its output non-finite."""

    def __init__(self, closure, factory_assigns, derivative_callables, element_callables):
        self.closure = closure
        self.args = [a.arg for a in closure.args.args]
        self.xs = set(self.args[:1])
        self.env = local_assignments(closure) if not isinstance(closure, ast.Lambda) else {}
        self.fassigns = factory_assigns
        self.dcalls = derivative_callables
        self.ecalls = element_callables
        self.singular: list = []
        self.unknown: list = []
        self.param_calls: list = []
        self.fparams: set = set()

    def depends_on_x(self, node, depth=0) -> bool:
        for n in ast.walk(node):
            if _is_x(n, self.xs):
                return True
            if isinstance(n, ast.Name) and n.id in self.env and depth < 5:
                if any(isinstance(v, ast.AST) and self.depends_on_x(v, depth + 1) for v in self.env[n.id]):
                    return True
            if isinstance(n, ast.Call) and isinstance(n.func, ast.Name) and n.func.id in (self.dcalls | self.ecalls):
                return True
            if isinstance(n, ast.Call) and isinstance(n.func, ast.Subscript):
                return True
        return False

    def positive(self, node, depth=0) -> bool:
        """Strictly positive for all finite real x?"""
        if isinstance(node, ast.Constant) and isinstance(node.value, (int, float)):
            return node.value > 0
        if isinstance(node, ast.Name) and node.id in self.env and depth < 5 and len(self.env[node.id]) == 1 and isinstance(self.env[node.id][0], ast.AST):
            return self.positive(self.env[node.id][0], depth + 1)
        if isinstance(node, ast.BinOp):
            if isinstance(node.op, ast.Add):
                return (self.positive(node.left, depth) and self.nonneg(node.right, depth)) or (self.nonneg(node.left, depth) and self.positive(node.right, depth))
            if isinstance(node.op, (ast.Mult, ast.Div)):
                return self.positive(node.left, depth) and self.positive(node.right, depth)
            if isinstance(node.op, ast.Pow):
                return self.positive(node.left, depth)
        if isinstance(node, ast.Call):
            f = dotted(node.func) or ""
            if f in ("np.exp", "np.cosh"):
                return True
            if f == "np.sqrt" and node.args:
                return self.positive(node.args[0], depth)
        return False

    def nonneg(self, node, depth=0) -> bool:
        if self.positive(node, depth):
            return True
        if isinstance(node, ast.Constant) and isinstance(node.value, (int, float)):
            return node.value >= 0
        if isinstance(node, ast.BinOp) and isinstance(node.op, ast.Pow) and isinstance(node.right, ast.Constant) and isinstance(node.right.value, int) and node.right.value % 2 == 0 and node.right.value >= 0:
            return True
        if isinstance(node, ast.BinOp) and isinstance(node.op, ast.Mult) and src(node.left) == src(node.right):
            return True
        if isinstance(node, ast.Call) and (dotted(node.func) or "") in ("np.abs", "np.absolute", "np.square"):
            return True
        return False

    def scan(self, node, depth=0):
        """Record singular primitives inside ``node`` (an expression of the closure body)."""
        if isinstance(node, ast.Name):
            if node.id in self.env and depth < 6:
                for v in self.env[node.id]:
                    if isinstance(v, ast.AugAssign):
                        self.scan(v.value, depth + 1)
                    elif isinstance(v, ast.AST):
                        self.scan(v, depth + 1)
            return
        if isinstance(node, ast.BinOp):
            if isinstance(node.op, (ast.Div, ast.FloorDiv, ast.Mod)):
                if self.depends_on_x(node.right) and not self.positive(node.right):
                    self.singular.append(f"division by {src(node.right)[:40]}")
            if isinstance(node.op, ast.Pow):
                e = node.right
                lit_ok = isinstance(e, ast.Constant) and isinstance(e.value, int) and e.value >= 0
                if self.depends_on_x(node.left) and not lit_ok and not self.positive(node.left):
                    self.singular.append(f"power with exponent {src(e)[:20]}")
            self.scan(node.left, depth)
            self.scan(node.right, depth)
            return
        if isinstance(node, ast.UnaryOp):
            self.scan(node.operand, depth)
            return
        if isinstance(node, ast.Call):
            f = dotted(node.func)
            if f == "_sanitize_derivatives":
                return  # sanitised sub-term
            if f and f.startswith("np."):
                base = f[3:]
                if base == "power":
                    e = node.args[1] if len(node.args) > 1 else None
                    lit_ok = isinstance(e, ast.Constant) and isinstance(e.value, int) and e.value >= 0
                    if self.depends_on_x(node.args[0]) and not lit_ok and not self.positive(node.args[0]):
                        self.singular.append(f"np.power with exponent {src(e)[:20]}")
                elif base in POLE_NP:
                    if any(self.depends_on_x(a) for a in node.args) and not (base in ("sqrt", "log", "log2", "log10") and self.positive(node.args[0])):
                        self.singular.append(f"np.{base}")
                elif base.split(".")[0] in REGULAR_NP or base in ("linalg.norm",):
                    pass
                else:
                    if any(self.depends_on_x(a) for a in node.args):
                        self.unknown.append(f)
                for a in node.args:
                    self.scan(a, depth)
                return
            if isinstance(node.func, ast.Name) and node.func.id in self.dcalls:
                return  # output of another derivative factory: its own obligation
            if isinstance(node.func, ast.Attribute) and node.func.attr in WRAPPERS:
                self.scan(node.func.value, depth)
                return
            if isinstance(node.func, ast.Name) and node.func.id in ("float", "len", "range", "int"):
                for a in node.args:
                    self.scan(a, depth)
                return
            if isinstance(node.func, ast.Name) and node.func.id in getattr(self, "fparams", ()) and node.func.id not in self.fassigns:
                # a callable handed to the factory by its caller: what it computes is decided at the call sites
                self.param_calls.append(node.func.id)
                return
            if isinstance(node.func, ast.Name) and node.func.id in self.fassigns:
                # a local of the factory: compiled element functions are bound from compile_* / builder calls (possibly
                # inside a list); anything else (picked from a table, unpacked from a tuple) is of unknown provenance
                vals = [v for v in self.fassigns[node.func.id] if isinstance(v, ast.AST)]
                compiled = any(isinstance(c_, ast.Call) and (dotted(c_.func) or "").startswith(("compile_", "_build_", "_compile")) for v in vals for c_ in ast.walk(v))
                if vals and not compiled:
                    self.param_calls.append(node.func.id)
                    return
            g = _module_helper(node)
            if g is not None:
                if _helper_sanitises(g):
                    return  # sanitised sub-term (the helper cleans what it returns)
                self.unknown.append(f"{g.name}() (a helper of the module; what it returns is not followed)")
                return
            # compiled element function of unknown shape: fn(x), compiled_elements[i][j](x)
            self.singular.append(f"call of compiled element function {src(node.func)[:30]}")
            return
        if isinstance(node, (ast.ListComp, ast.GeneratorExp)):
            self.scan(node.elt, depth)
            return
        if isinstance(node, (ast.Tuple, ast.List)):
            for e in node.elts:
                self.scan(e, depth)
            return
        if isinstance(node, ast.Subscript):
            self.scan(node.value, depth)
            return
        if isinstance(node, ast.IfExp):
            self.scan(node.body, depth)
            self.scan(node.orelse, depth)
            return


def classify_closure(closure, factory, prog, factories):
    """-> (returns: [(return node, sanitised?)], singular primitives, unknown primitives)"""
    fassigns = local_assignments(factory.node)
    fact_names = {f.name for f in factories.values()}
    dcalls, ecalls = set(), set()
    for nm, vals in fassigns.items():
        for v in vals:
            if isinstance(v, ast.Call) and isinstance(v.func, ast.Name):
                if v.func.id in fact_names:
                    dcalls.add(nm)
    t = Term(closure, fassigns, dcalls, ecalls)
    fa = factory.node.args
    t.fparams = {a.arg for a in fa.posonlyargs + fa.args + fa.kwonlyargs}
    closure._param_calls = t.param_calls
    rets = []
    if isinstance(closure, ast.Lambda):
        body_rets = [closure.body]
    else:
        body_rets = [n.value for n in walk_local(closure, include_self=False) if isinstance(n, ast.Return) and n.value is not None]
        # in-place stores into the returned array belong to its term
        for n in walk_local(closure, include_self=False):
            if isinstance(n, ast.Assign):
                for tg in n.targets:
                    if isinstance(tg, ast.Subscript) and isinstance(tg.value, ast.Name):
                        t.env.setdefault(tg.value.id, []).append(n.value)
    for rv in body_rets:
        san = _sanitised(rv, t.env)
        rets.append((rv, san))
        if not san:
            t.scan(rv)
        else:
            # the sanitised argument still tells us whether the closure is singular at all
            t2 = Term(closure, fassigns, dcalls, ecalls)
            t2.env = t.env
            inner = _strip_sanitise(rv, t.env)
            t2.scan(inner)
            t.singular_inside = getattr(t, "singular_inside", []) + t2.singular
    return rets, t.singular, t.unknown, getattr(t, "singular_inside", [])


def _combines_unbounded(cl, fi, factories):
    """An Add/Sub whose two operands are both whole arrays derived from singular data, evaluated before sanitising."""
    fassigns = local_assignments(fi.node)
    env = local_assignments(cl)
    # arrays filled from compiled element functions / singular primitives
    singular_names = set()
    for n in walk_local(cl):
        if isinstance(n, ast.Assign):
            for tg in n.targets:
                if isinstance(tg, ast.Subscript) and isinstance(tg.value, ast.Name):
                    t = Term(cl, fassigns, set(), set())
                    t.scan(n.value)
                    if t.singular:
                        singular_names.add(tg.value.id)
                elif isinstance(tg, ast.Name):
                    t = Term(cl, fassigns, set(), set())
                    t.scan(n.value)
                    if t.singular:
                        singular_names.add(tg.id)

    def derived(e):
        return any(isinstance(x, ast.Name) and x.id in singular_names for x in ast.walk(e))

    for n in walk_local(cl):
        if isinstance(n, ast.BinOp) and isinstance(n.op, (ast.Add, ast.Sub)) and derived(n.left) and derived(n.right):
            # inside the argument of the sanitiser? then it happens before sanitising
            p_ = getattr(n, "_parent", None)
            sanitised_before = False
            # operands that are themselves sanitiser calls are fine
            if all(isinstance(o, ast.Call) and dotted(o.func) == "_sanitize_derivatives" for o in (n.left, n.right)):
                sanitised_before = True
            if not sanitised_before:
                return n
    return None


_CTX: dict = {}


def _module_helper(call):
    """The module-level function of the package a call `name(...)` resolves to (same module as the factories), else None."""
    prog = _CTX.get("prog")
    if prog is None or not isinstance(call.func, ast.Name):
        return None
    for mod in _CTX.get("modules", ()):
        g = prog.functions.get(f"{mod}:{call.func.id}")
        if g is not None and g.parent is None and g.cls is None:
            return g
    return None


def _helper_sanitises(g, depth=0) -> bool:
    """Every return of the module-level helper hands back a sanitised array."""
    rets = [n.value for n in walk_local(g.node, include_self=False) if isinstance(n, ast.Return)]
    env = local_assignments(g.node)
    return bool(rets) and all(r is not None and _sanitised(r, env, depth + 1) for r in rets)


def _sanitised(rv, env, depth=0) -> bool:
    if isinstance(rv, ast.Call):
        f = dotted(rv.func)
        if f == "_sanitize_derivatives":
            return True
        g = _module_helper(rv) if depth < 4 else None
        if g is not None and g.name != "_sanitize_derivatives" and _helper_sanitises(g, depth):
            return True
        if f == "np.diag" and rv.args:
            return _sanitised(rv.args[0], env, depth)
        if isinstance(rv.func, ast.Attribute) and rv.func.attr in WRAPPERS:
            return _sanitised(rv.func.value, env, depth)
    if isinstance(rv, ast.Name) and rv.id in env and depth < 4:
        vals = [v for v in env[rv.id] if isinstance(v, ast.AST) and not isinstance(v, ast.AugAssign)]
        whole = [v for v in vals if not _is_partial_store(v)]
        return bool(whole) and all(_sanitised(v, env, depth + 1) for v in whole) and len(whole) == len(vals)
    return False


def _is_partial_store(v):
    return False


def _strip_sanitise(rv, env):
    if isinstance(rv, ast.Call):
        f = dotted(rv.func)
        if f == "_sanitize_derivatives" and rv.args:
            return rv.args[0]
        if f == "np.diag" and rv.args:
            return _strip_sanitise(rv.args[0], env)
    return rv


def _sanitiser_abstract(sf, ret, arg, consts):
    """Abstract evaluation of the array the sanitiser returns, per kind of input entry: 'nan', '+inf', '-inf', 'fin' (a
    regular value), 'huge' / '-huge' (finite, beyond the clamp value L).  Understood: np.nan_to_num, np.clip, np.where,
    np.minimum / np.maximum, np.isnan / isinf / isposinf / isneginf / isfinite, ~ & | on masks, .copy(), locals, and
    masked stores `out[mask] = value` before the return.  -> {kind: outcome} or None when something is not understood."""
    KINDS = ("nan", "+inf", "-inf", "fin", "huge", "-huge")
    L = None
    for nm, v in consts.items():
        if isinstance(v, (int, float)) and v > 1e6:
            L = nm

    def scalar(e):
        if isinstance(e, ast.Constant) and isinstance(e.value, (int, float)):
            return ("const", float(e.value))
        if isinstance(e, ast.Name) and e.id == L:
            return "L"
        if isinstance(e, ast.UnaryOp) and isinstance(e.op, ast.USub):
            x = scalar(e.operand)
            return "-L" if x == "L" else ("const", -x[1]) if isinstance(x, tuple) else None
        if isinstance(e, ast.Attribute) and src(e) in ("np.inf", "math.inf"):
            return "+inf"
        if isinstance(e, ast.Attribute) and src(e) in ("np.nan", "math.nan"):
            return "nan"
        return None

    env = {arg: {k: k for k in KINDS}}
    # statements before the return, in order (straight-line part of the function; the finite fast path is skipped)
    body = []
    for st in sf.node.body:
        if st is ret or any(x is ret for x in ast.walk(st)):
            break
        body.append(st)

    def arr(e):
        if isinstance(e, ast.Name) and e.id in env and isinstance(env[e.id], dict) and "nan" in env[e.id]:
            return env[e.id]
        if isinstance(e, ast.Call):
            d = dotted(e.func) or ""
            if isinstance(e.func, ast.Attribute) and e.func.attr in ("copy", "astype") :
                return arr(e.func.value)
            if d in ("np.asarray", "np.array", "np.copy", "np.asarray_chkfinite") and e.args:
                return arr(e.args[0])
            if d == "np.nan_to_num" and e.args:
                a = arr(e.args[0])
                if a is None:
                    return None
                kw = {k.arg: k.value for k in e.keywords if k.arg}
                if any(k.arg is None for k in e.keywords):
                    return None
                rep_ = {"nan": scalar(kw["nan"]) if "nan" in kw else ("const", 0.0), "+inf": scalar(kw["posinf"]) if "posinf" in kw else "L?", "-inf": scalar(kw["neginf"]) if "neginf" in kw else "-L?"}
                if None in rep_.values():
                    return None
                return {k: (rep_[a[k]] if a[k] in rep_ else a[k]) for k in KINDS}
            if d == "np.clip" and len(e.args) == 3:
                a, lo, hi = arr(e.args[0]), scalar(e.args[1]), scalar(e.args[2])
                if a is None or lo != "-L" or hi != "L":
                    return None
                m = {"nan": "nan", "+inf": "L", "-inf": "-L", "fin": "fin", "huge": "L", "-huge": "-L", "L": "L", "-L": "-L"}
                return {k: m.get(a[k], a[k] if isinstance(a[k], tuple) else None) for k in KINDS}
            if d in ("np.minimum", "np.fmin") and len(e.args) == 2:
                a, hi = arr(e.args[0]), scalar(e.args[1])
                if a is None or hi != "L":
                    return None
                m = {"nan": "nan" if d == "np.minimum" else "L", "+inf": "L", "-inf": "-inf", "fin": "fin", "huge": "L", "-huge": "-huge", "L": "L", "-L": "-L"}
                return {k: m.get(a[k], a[k] if isinstance(a[k], tuple) else None) for k in KINDS}
            if d in ("np.maximum", "np.fmax") and len(e.args) == 2:
                a, lo = arr(e.args[0]), scalar(e.args[1])
                if a is None or lo != "-L":
                    return None
                m = {"nan": "nan" if d == "np.maximum" else "-L", "+inf": "+inf", "-inf": "-L", "fin": "fin", "huge": "huge", "-huge": "-L", "L": "L", "-L": "-L"}
                return {k: m.get(a[k], a[k] if isinstance(a[k], tuple) else None) for k in KINDS}
            if d == "np.where" and len(e.args) == 3:
                c = mask(e.args[0])
                x = arr(e.args[1]) or ({k: scalar(e.args[1]) for k in KINDS} if scalar(e.args[1]) is not None else None)
                y = arr(e.args[2]) or ({k: scalar(e.args[2]) for k in KINDS} if scalar(e.args[2]) is not None else None)
                if c is None or x is None or y is None:
                    return None
                return {k: (x[k] if c[k] else y[k]) for k in KINDS}
        return None

    def mask(e):
        """{kind: bool} for a boolean array expression"""
        if isinstance(e, ast.Name) and e.id in env and isinstance(env[e.id], dict) and "nan" in env[e.id] and all(isinstance(v, bool) for v in env[e.id].values()):
            return env[e.id]
        if isinstance(e, ast.UnaryOp) and isinstance(e.op, ast.Invert):
            m = mask(e.operand)
            return None if m is None else {k: not v for k, v in m.items()}
        if isinstance(e, ast.BinOp) and isinstance(e.op, (ast.BitAnd, ast.BitOr)):
            a, b = mask(e.left), mask(e.right)
            if a is None or b is None:
                return None
            return {k: (a[k] and b[k]) if isinstance(e.op, ast.BitAnd) else (a[k] or b[k]) for k in KINDS}
        if isinstance(e, ast.Call):
            d = dotted(e.func) or ""
            if d in ("np.isnan", "np.isinf", "np.isposinf", "np.isneginf", "np.isfinite") and e.args:
                a = arr(e.args[0])
                if a is None:
                    return None
                test = {"np.isnan": lambda v: v == "nan", "np.isinf": lambda v: v in ("+inf", "-inf"), "np.isposinf": lambda v: v == "+inf", "np.isneginf": lambda v: v == "-inf",
                        "np.isfinite": lambda v: v not in ("nan", "+inf", "-inf")}[d]
                return {k: test(a[k]) for k in KINDS}
            if d in ("np.logical_not",) and e.args:
                m = mask(e.args[0])
                return None if m is None else {k: not v for k, v in m.items()}
        return None

    for st in body:
        if isinstance(st, ast.If):
            # the finite fast path: `if np.all(np.isfinite(arr)): return arr`
            if all(isinstance(x, ast.Return) for x in st.body) and not st.orelse:
                continue
            return None
        if isinstance(st, (ast.Expr,)) and isinstance(st.value, ast.Constant):
            continue
        if isinstance(st, (ast.Assign, ast.AnnAssign)) and getattr(st, "value", None) is not None:
            tg = st.targets[0] if isinstance(st, ast.Assign) else st.target
            if isinstance(tg, ast.Name):
                v = arr(st.value)
                if v is None:
                    v = mask(st.value)
                if v is None:
                    return None
                env[tg.id] = v
                continue
            if isinstance(tg, ast.Subscript) and isinstance(tg.value, ast.Name) and tg.value.id in env:
                m, val = mask(tg.slice), scalar(st.value)
                a = env[tg.value.id]
                if m is None or val is None or tg.value.id == arg:
                    return None
                env[tg.value.id] = {k: (val if m[k] else a[k]) for k in KINDS}
                continue
            return None
        return None
    out = arr(ret.value)
    if out is None or any(v is None or v in ("L?", "-L?") for v in out.values()):
        return None
    return out


def _module_value(module, name):
    for st in module.tree.body:
        tg = st.targets[0] if isinstance(st, ast.Assign) and len(st.targets) == 1 else st.target if isinstance(st, ast.AnnAssign) else None
        if isinstance(tg, ast.Name) and tg.id == name and getattr(st, "value", None) is not None:
            return st.value
    return None


def _table_driven(prog, rep, fi, cl, construct, factories) -> bool:
    """A closure whose term is `deriv(x)` with `deriv = TABLE[key]` / `TABLE.get(key)` picked by the factory from a
    module-level dict literal: the closure is specialised per table key (the picked entry substituted and beta-reduced,
    factory flags such as `key in SINGULAR_OPS` evaluated from the literal tables, conditionals folded) and each
    specialisation is classified like a hand-written closure.  Returns False when the idiom is not recognised."""
    from ..astutil import clone
    from .c08 import _module_literal

    fassigns = local_assignments(fi.node)
    picks = {}
    keyname = None
    for nm in set(cl._param_calls):
        vals = [v for v in fassigns.get(nm, []) if isinstance(v, ast.AST)]
        if len(vals) != 1:
            return False
        v = vals[0]
        tbl = key = None
        if isinstance(v, ast.Subscript) and isinstance(v.value, ast.Name) and isinstance(v.slice, ast.Name):
            tbl, key = v.value.id, v.slice.id
        elif isinstance(v, ast.Call) and isinstance(v.func, ast.Attribute) and v.func.attr == "get" and isinstance(v.func.value, ast.Name) and len(v.args) == 1 and isinstance(v.args[0], ast.Name):
            tbl, key = v.func.value.id, v.args[0].id
        if tbl is None or (keyname is not None and key != keyname):
            return False
        d = _module_value(fi.module, tbl)
        if not isinstance(d, ast.Dict) or not d.keys or not all(isinstance(k, ast.Constant) and isinstance(k.value, str) for k in d.keys):
            return False
        keyname = key
        picks[nm] = {k.value: val for k, val in zip(d.keys, d.values)}
    if not picks:
        return False
    keys = sorted(set.intersection(*[set(t) for t in picks.values()]))

    def flag_value(e, k):
        """bool value of a factory-level test under key = k, or None."""
        if isinstance(e, ast.Compare) and len(e.ops) == 1 and isinstance(e.left, ast.Name) and e.left.id == keyname:
            op, c = e.ops[0], e.comparators[0]
            if isinstance(op, (ast.In, ast.NotIn)):
                if isinstance(c, ast.Name):
                    vals = _module_literal(prog, fi.module, c.id)
                elif isinstance(c, (ast.Tuple, ast.List, ast.Set)) and all(isinstance(x, ast.Constant) for x in c.elts):
                    vals = [x.value for x in c.elts]
                else:
                    vals = None
                if vals is None:
                    return None
                return (k in vals) if isinstance(op, ast.In) else (k not in vals)
            if isinstance(op, (ast.Eq, ast.NotEq)) and isinstance(c, ast.Constant):
                return (k == c.value) if isinstance(op, ast.Eq) else (k != c.value)
        if isinstance(e, ast.Constant) and isinstance(e.value, bool):
            return e.value
        if isinstance(e, ast.UnaryOp) and isinstance(e.op, ast.Not):
            r = flag_value(e.operand, k)
            return None if r is None else (not r)
        return None

    flags = {}
    for nm, vals in fassigns.items():
        vs = [v for v in vals if isinstance(v, ast.AST)]
        if len(vs) == 1 and isinstance(vs[0], (ast.Compare, ast.UnaryOp)):
            flags[nm] = vs[0]

    class Spec(ast.NodeTransformer):
        def __init__(self, k):
            self.k = k

        def visit_Name(self, n):
            if isinstance(n.ctx, ast.Load) and n.id in flags:
                r = flag_value(flags[n.id], self.k)
                if r is not None:
                    return ast.copy_location(ast.Constant(value=r), n)
            return n

        def visit_Compare(self, n):
            self.generic_visit(n)
            r = flag_value(n, self.k)
            return n if r is None else ast.copy_location(ast.Constant(value=r), n)

        def visit_Call(self, n):
            self.generic_visit(n)
            if isinstance(n.func, ast.Name) and n.func.id in picks:
                v = picks[n.func.id][self.k]
                if isinstance(v, ast.Lambda) and len(v.args.args) == len(n.args) and not n.keywords:
                    sub = {a.arg: arg for a, arg in zip(v.args.args, n.args)}

                    class S(ast.NodeTransformer):
                        def visit_Name(self, x):
                            return clone(sub[x.id]) if isinstance(x.ctx, ast.Load) and x.id in sub else x

                    return ast.copy_location(S().visit(clone(v.body)), n)
                if isinstance(v, (ast.Attribute, ast.Name)):
                    return ast.copy_location(ast.Call(func=clone(v), args=n.args, keywords=n.keywords), n)
            return n

        def visit_IfExp(self, n):
            self.generic_visit(n)
            if isinstance(n.test, ast.Constant) and isinstance(n.test.value, bool):
                return n.body if n.test.value else n.orelse
            return n

        def visit_If(self, n):
            self.generic_visit(n)
            if isinstance(n.test, ast.Constant) and isinstance(n.test.value, bool):
                return n.body if n.test.value else (n.orelse or [ast.copy_location(ast.Pass(), n)])
            return n

    n_keys = 0
    for k in keys:
        spec = Spec(k).visit(clone(cl))
        ast.fix_missing_locations(spec)
        rets, singular, unknown, inside = classify_closure(spec, fi, prog, factories)
        if unknown or getattr(spec, "_param_calls", None):
            rep.undecided(f"{construct}[{keyname}={k!r}]: the specialised closure is not interpretable ({sorted(set(unknown))[:2] or spec._param_calls[:1]})")
            continue
        n_keys += 1
        all_san = all(s_ for _r, s_ in rets) and bool(rets)
        ok = not singular
        term = src(rets[0][0])[:60] if rets else "?"
        why = ""
        if not ok:
            tests = [f"`{src(flags[nm])}` is False" for nm in flags if flag_value(flags[nm], k) is False and any(isinstance(x, ast.Name) and x.id == nm for x in ast.walk(cl))]
            tabs = []
            for nm in flags:
                for c in ast.walk(flags[nm]):
                    if isinstance(c, ast.Name) and c.id != keyname:
                        vals = _module_literal(prog, fi.module, c.id)
                        if vals is not None:
                            tabs.append(f"{c.id} = {tuple(vals)!r}")
            why = (" (" + "; ".join(tests[:1] + tabs[:1]) + ")") if tests or tabs else ""
        rep.ob("R19.1", f"{construct}[{keyname}={k!r}]", ok,
               ("sanitised on every return" if all_san else "the picked derivative contains only regular primitives") if ok else
               f"for {keyname} = {k!r} the closure returns `{term}`, whose term contains {', '.join(sorted(set(singular))[:3])}, without _sanitize_derivatives{why}: NaN/inf reaches SciPy at the singular point",
               loc=f"{fi.module.rel}:{cl.lineno}", detail="singular=>sanitised", robust=True,
               extra={"sanitised": all_san, "singular": sorted(set(singular + inside))})
    return n_keys > 0


def check(prog, rep):
    factories = discover_factories(prog)
    _CTX["prog"] = prog
    _CTX["modules"] = sorted({fi.module.name for fi in factories.values()})
    if len(factories) < 3:
        raise AnalysisError(f"only {len(factories)} derivative factories discovered (role-based discovery failed)")
    rep.saw("derivative factories", sorted(factories))
    total = 0
    for q, fi in sorted(factories.items()):
        closures = returned_closures(prog, fi)
        by_arm = {}
        for cl, ret in closures:
            total += 1
            name = getattr(cl, "name", f"<lambda@{cl.lineno}>")
            rets, singular, unknown, inside = classify_closure(cl, fi, prog, factories)
            construct = f"{fi.name}.{name}"
            if unknown:
                raise AnalysisError(f"{construct}: NumPy function(s) {sorted(set(unknown))} are not in the regular/singular tables")
            all_san = all(s for _r, s in rets) and bool(rets)
            ok = not singular
            if ok and not all_san and getattr(cl, "_param_calls", None):
                # unsanitised, and the term calls a callable that is a parameter of the factory: whether it is singular
                # is not visible here (a table-driven factory); not decided on this view
                if not isinstance(cl, ast.Lambda) and _table_driven(prog, rep, fi, cl, construct, factories):
                    continue
                rep.undecided(f"{construct}: calls `{cl._param_calls[0]}`, a callable of unknown provenance (factory parameter / table entry), and is not sanitised; whether it is singular is not visible here")
                continue
            rep.ob("R19.1", construct, ok,
                   ("sanitised on every return (singular primitives inside: " + ", ".join(sorted(set(inside))[:3]) + ")") if all_san and inside else
                   ("sanitised on every return" if all_san else "term contains only regular primitives")
                   if ok else
                   f"term contains {', '.join(sorted(set(singular))[:3])} but a return path hands the array to the solver without _sanitize_derivatives: NaN/inf reaches SciPy at the singular point",
                   loc=f"{fi.module.rel}:{cl.lineno}", detail="singular=>sanitised",
                   extra={"sanitised": all_san, "singular": sorted(set(singular + inside))})
            # entries must be sanitised before they are combined with each other: inf - inf (or inf + -inf) is NaN,
            # which the sanitiser then maps to 0 instead of +-L
            if not isinstance(cl, ast.Lambda):
                comb = _combines_unbounded(cl, fi, factories)
                if comb is not None:
                    rep.ob("R19.1", construct, False, f"`{src(comb)[:70]}` adds/subtracts arrays that may hold unbounded entries BEFORE _sanitize_derivatives is applied: inf - inf = NaN, which is then reported as 0 instead of +-1e16", loc=f"{fi.module.rel}:{comb.lineno}", detail="combine-before-sanitise")
            arm = _arm_key(cl, fi)
            by_arm.setdefault(arm, []).append((name, all_san, bool(singular or inside), cl))
        for arm, lst in by_arm.items():
            if arm is None or len(lst) < 2:
                continue
            flags = {s for _n, s, _g, _c in lst}
            rep.ob("R19.2", f"{fi.name}[{arm}]", len(flags) == 1,
                   f"variants {', '.join(n for n, *_ in lst)} agree ({'sanitised' if True in flags else 'regular, unsanitised'})"
                   if len(flags) == 1 else
                   f"variants of one operator disagree: " + ", ".join(f"{n}={'sanitised' if s else 'raw'}" for n, s, _g, _c in lst),
                   loc=f"{fi.module.rel}:{lst[0][3].lineno}", detail="dense/sparse parity")
    rep.saw("derivative closures", total)

    # ---- R19.3 the sanitiser itself
    san = [f for f in prog.find_func("_sanitize_derivatives")]
    if len(san) != 1:
        raise AnalysisError("sanitiser _sanitize_derivatives not found exactly once")
    sf = san[0]
    arg = sf.node.args.args[0].arg
    consts = {}
    for n in sf.module.tree.body:
        if isinstance(n, ast.Assign) and len(n.targets) == 1 and isinstance(n.targets[0], ast.Name) and isinstance(n.value, ast.Constant):
            consts[n.targets[0].id] = n.value.value
    nrets = 0
    for n in walk_local(sf.node, include_self=False):
        if not isinstance(n, ast.Return):
            continue
        nrets += 1
        v = n.value
        if isinstance(v, ast.Name) and v.id == arg:
            # must be guarded by all-finite
            g = getattr(n, "_parent", None)
            ok = isinstance(g, ast.If) and src(g.test).replace(" ", "") in (f"np.all(np.isfinite({arg}))", f"np.isfinite({arg}).all()") and n in g.body
            rep.ob("R19.3", "_sanitize_derivatives", ok, "fast path returns the input only when every entry is finite" if ok else f"returns the input unchanged under `{src(g.test) if isinstance(g, ast.If) else 'no guard'}`, which does not imply all entries are finite", loc=f"{sf.module.rel}:{n.lineno}", detail="fast-path")
        elif isinstance(v, ast.Call) and dotted(v.func) == "np.nan_to_num":
            kw = {k.arg: k.value for k in v.keywords if k.arg}
            sasg = local_assignments(sf.node)
            opaque = False
            for k in v.keywords:
                if k.arg is None:
                    d_ = k.value
                    if isinstance(d_, ast.Name) and len([x for x in sasg.get(d_.id, []) if isinstance(x, ast.AST)]) == 1:
                        d_ = sasg[d_.id][0]
                    if isinstance(d_, ast.Name):
                        d_ = _module_value(sf.module, d_.id) or d_
                    if isinstance(d_, ast.Dict) and all(isinstance(kk, ast.Constant) for kk in d_.keys):
                        kw.update({kk.value: vv for kk, vv in zip(d_.keys, d_.values)})
                    elif isinstance(d_, ast.Call) and dotted(d_.func) == "dict" and not d_.args and all(x.arg for x in d_.keywords):
                        kw.update({x.arg: x.value for x in d_.keywords})
                    else:
                        opaque = True
            if opaque:
                rep.undecided(f"_sanitize_derivatives: the keyword arguments of `{src(v)[:60]}` are not visible")
                continue

            def val(node):
                if isinstance(node, ast.Constant):
                    return node.value
                if isinstance(node, ast.Name):
                    return consts.get(node.id)
                if isinstance(node, ast.UnaryOp) and isinstance(node.op, ast.USub):
                    x = val(node.operand)
                    return -x if x is not None else None
                return None

            nanv, pos, neg = val(kw.get("nan")) if "nan" in kw else 0.0, val(kw.get("posinf")), val(kw.get("neginf"))
            import math

            if (("posinf" in kw and pos is None) or ("neginf" in kw and neg is None) or ("nan" in kw and nanv is None)):
                rep.undecided(f"_sanitize_derivatives: a replacement value of `{src(v)[:60]}` is not a constant this rule can evaluate")
                continue
            ok = (v.args and src(v.args[0]) == arg and nanv == 0 and pos is not None and neg is not None and pos > 0 and math.isfinite(pos) and neg == -pos)
            rep.ob("R19.3", "_sanitize_derivatives", bool(ok), f"NaN -> {nanv}, +inf -> {pos}, -inf -> {neg}" if ok else f"replacement values are wrong: nan={nanv}, posinf={pos}, neginf={neg} (expected 0, +L, -L with L>0 finite)", loc=f"{sf.module.rel}:{n.lineno}", detail="replacement-values")
        else:
            res_ = _sanitiser_abstract(sf, n, arg, consts)
            if res_ is None:
                rep.undecided(f"_sanitize_derivatives: return `{src(v)[:60]}` is not a form this rule reads")
                continue
            want_ = {"nan": ("const", 0.0), "+inf": "L", "-inf": "-L", "fin": "fin", "huge": "huge", "-huge": "-huge"}
            bad_ = [(k_, res_[k_]) for k_ in want_ if res_[k_] != want_[k_] and not (k_ == "nan" and res_[k_] == ("const", 0))]
            names_ = {"nan": "NaN", "+inf": "+inf", "-inf": "-inf", "fin": "a regular entry", "huge": "a finite entry above the clamp value", "-huge": "a finite entry below minus the clamp value"}
            show_ = lambda x: {"L": "+L", "-L": "-L", "fin": "itself", "huge": "itself", "-huge": "itself", "nan": "NaN", "+inf": "+inf", "-inf": "-inf"}.get(x, f"{x[1]}" if isinstance(x, tuple) else str(x))
            rep.ob("R19.3", "_sanitize_derivatives", not bad_, "NaN -> 0, +inf -> +L, -inf -> -L, finite entries unchanged (abstract evaluation of the NumPy expression over the five kinds of entry)" if not bad_ else
                   f"`{src(v)[:60]}` maps {names_[bad_[0][0]]} to {show_(bad_[0][1])}" + (" (expected 0)" if bad_[0][0] == "nan" else " (a finite derivative entry must come back unchanged)" if bad_[0][0] in ("fin", "huge", "-huge") else " (expected the finite clamp value with the same sign)"),
                   loc=f"{sf.module.rel}:{n.lineno}", detail="replacement-values", robust=True)
    if nrets == 0:
        raise AnalysisError("sanitiser has no return")

    # ---- R19.4 solver-side derivative callables come from the factories
    fact_names = {f.name for f in factories.values()}
    n194 = 0
    for fi in prog.functions.values():
        if not fi.module.name.startswith("optyx.solvers"):
            continue
        # stores of factory results: name = factory(...), cache["k"] = factory(...)
        for n in walk_local(fi.node, include_self=False):
            if isinstance(n, ast.Call) and dotted(n.func) in ("minimize",):
                for kw in n.keywords:
                    if kw.arg in ("jac", "hess"):
                        n194 += 1
                        ok, why = _traces_to_factory(prog, fi, kw.value, fact_names)
                        if ok is None:
                            rep.undecided(f"{fi.name}:minimize({kw.arg}=): {why}")
                            continue
                        rep.ob("R19.4", f"{fi.name}:minimize({kw.arg}=)", ok, why, loc=f"{fi.module.rel}:{n.lineno}", detail="origin", robust=True)   # False only for a positively hand-made callable; untraceable -> None above
            if isinstance(n, ast.Dict):
                keys = [k.value for k in n.keys if isinstance(k, ast.Constant)]
                if "jac" in keys and "fun" in keys:
                    n194 += 1
                    v = n.values[keys.index("jac")]
                    ok, why = _traces_to_factory(prog, fi, v, fact_names)
                    if ok is None:
                        rep.undecided(f"{fi.name}:constraint-dict: {why}")
                        continue
                    typ = n.values[keys.index("type")] if "type" in keys else None
                    rep.ob("R19.4", f"{fi.name}:constraint-dict[{src(typ) if typ is not None else '?'}:{_sign(v)}]", ok, why, loc=f"{fi.module.rel}:{n.lineno}", detail="origin", robust=True)
    rep.expect_min("R19.1", 44)
    rep.expect_min("R19.2", 14)
    rep.expect_min("R19.3", 2)
    rep.expect_min("R19.4", 3)  # minimize(jac=, hess=) + at least one constraint record (three inline records, or one record factory)
    rep.explanation = (
        "Must-pass-through over every closure handed to a solver: derivative factories are discovered by role (they "
        "return closures and call the symbolic differentiator, or their closure result is returned/wrapped by such a "
        "factory); each returned closure's NumPy term is classified by a small sign analysis (division by / log / sqrt / "
        "tan / non-literal power of something that can vanish, or a call of a compiled element function of unknown "
        "shape = singular); singular closures must return _sanitize_derivatives(whole output) on every return. "
        "Dense/sparse siblings must agree; the sanitiser's replacement table is checked; solver-side jac/hess callables "
        "must originate from these factories."
    )
    rep.assume("overflow of regular primitives at huge finite arguments (exp(800)) is not a singularity of the derivative and is not decided")


def _sign(v):
    return "-" if any(isinstance(x, ast.UnaryOp) and isinstance(x.op, ast.USub) for x in ast.walk(v)) else "+"


def _arm_key(cl, fi):
    """Operator arm (literal of the enclosing `op == "lit"` / `k == lit` chain) the closure is defined in."""
    child = cl
    p = getattr(cl, "_parent", None)
    while p is not None and p is not fi.node:
        if isinstance(p, ast.If):
            t = op_test(p.test)
            numeric = isinstance(p.test, ast.Compare) and isinstance(p.test.comparators[0], ast.Constant) and isinstance(p.test.ops[0], ast.Eq)
            if (t is not None and not t[2]) or numeric:
                in_else = any(child is s for s in p.orelse)
                if in_else:
                    return f"else-of:{src(p.test)}"
                return src(p.test).replace(" ", "")
        child = p
        p = getattr(p, "_parent", None)
    return None


def _all3(res):
    """Conjunction of (True | False | None, why) verdicts: a definite False wins, then an undecided one."""
    for want in (False, None):
        for ok, why in res:
            if ok is want:
                return ok, why
    return res[0]


def _traces_to_factory(prog, fi, v, fact_names, depth=0):
    """Is callable expression ``v`` (in function fi) a flatten/neg wrapper around a factory-made callable?"""
    if isinstance(v, ast.IfExp):
        return _all3([_traces_to_factory(prog, fi, v.body, fact_names, depth), _traces_to_factory(prog, fi, v.orelse, fact_names, depth)])
    if isinstance(v, ast.Constant) and v.value is None:
        return True, "None (no derivative supplied)"
    assigns = local_assignments(fi.node)
    nested = [n for n in ast.walk(fi.node) if isinstance(n, ast.FunctionDef) and n is not fi.node and isinstance(v, ast.Name) and n.name == v.id and enclosing_function(n) is fi.node]
    if nested:
        return _all3([_closure_wraps(prog, fi, n, fact_names, assigns) for n in nested])
    if isinstance(v, ast.Lambda):
        return _closure_wraps(prog, fi, v, fact_names, assigns)
    if isinstance(v, ast.Name) and v.id in assigns and depth < 3:
        res = [_traces_to_factory(prog, fi, x, fact_names, depth + 1) for x in assigns[v.id] if isinstance(x, ast.AST)]
        return _all3(res) if res else (None, f"cannot trace {v.id}")
    if isinstance(v, ast.Call) and dotted(v.func) in fact_names:
        return True, f"made by derivative factory {dotted(v.func)}"
    if isinstance(v, ast.Attribute):
        # kept on an object (problem._hess_cache): follow the stores into that attribute across the solver modules
        stores = [(f2, n.value) for f2 in prog.functions.values() if f2.module.name.startswith("optyx.") for n in walk_local(f2.node, include_self=False)
                  if isinstance(n, ast.Assign) and any(isinstance(t, ast.Attribute) and t.attr == v.attr for t in n.targets) and not (isinstance(n.value, ast.Constant) and n.value.value is None)]
        if stores and depth < 3:
            return _all3([_traces_to_factory(prog, f2, val, fact_names, depth + 1) for f2, val in stores])
    return None, f"cannot trace the origin of {src(v)[:50]} to a derivative factory"


def _closure_wraps(prog, fi, cl, fact_names, assigns):
    """The closure calls exactly one callable and returns its result through wrappers."""
    inner = [c for c in calls(cl, local=False) if isinstance(c.func, ast.Name)]
    cands = [c for c in inner if _is_whole_result(c, cl)]
    if not cands:
        # positively hand-made: the elements it calls come from the plain expression compiler (no sanitising)
        defaults0 = dict(zip([a.arg for a in cl.args.args][::-1], cl.args.defaults[::-1]))
        for comp in [c for c in ast.walk(cl) if isinstance(c, ast.comprehension) and isinstance(c.iter, ast.Name)]:
            srcname = defaults0.get(comp.iter.id, comp.iter)
            vals = [v for v in assigns.get(srcname.id, []) if isinstance(v, ast.AST)] if isinstance(srcname, ast.Name) else []
            for v in vals:
                for c in ast.walk(v):
                    if isinstance(c, ast.Call) and dotted(c.func) == "compile_expression":
                        return False, f"the callable evaluates elements made by compile_expression (`{src(v)[:60]}`): a hand-assembled derivative that never passes through the sanitiser"
        if inner:
            return None, f"the callable calls {inner[0].func.id}(..) but what it returns is not one of the wrapper forms this rule follows"
        return False, "the callable does not return the result of a factory-made derivative callable"
    name = cands[0].func.id
    # default-argument binding: lambda x, jfn=c_jac_fn: ...
    args = cl.args
    defaults = dict(zip([a.arg for a in args.args][::-1], args.defaults[::-1]))
    origin = defaults.get(name, ast.Name(id=name, ctx=ast.Load()))
    return _origin(prog, fi, origin, fact_names, assigns)


def _origin(prog, fi, node, fact_names, assigns, depth=0, seen=None):
    seen = seen if seen is not None else set()
    if isinstance(node, ast.Call) and dotted(node.func) in fact_names:
        return True, f"wraps the callable made by {dotted(node.func)}"
    if isinstance(node, ast.Lambda) and depth < 4:
        return _closure_wraps(prog, fi, node, fact_names, assigns)
    if isinstance(node, ast.Call) and dotted(node.func) == "compile_expression":
        return False, f"made by compile_expression (`{src(node)[:50]}`), the plain expression compiler: a derivative assembled by hand never passes through the sanitiser"
    a_ = fi.node.args
    params = [x.arg for x in a_.posonlyargs + a_.args + a_.kwonlyargs]
    if isinstance(node, ast.Name) and node.id in params and node.id not in assigns and depth < 4:
        # a record / wrapper factory: the callable is a parameter; every call site must pass a factory-made callable
        sites = call_sites(prog, fi, "optyx.solvers")
        if not sites:
            return False, f"parameter {node.id} of {fi.name} has no call site to trace"
        for caller, call in sites:
            arg = bind_args(fi.node, call).get(node.id)
            if arg is None:
                return False, f"cannot bind parameter {node.id} at the call in {caller.name}"
            ok, why = _origin(prog, caller, arg, fact_names, local_assignments(caller.node), depth + 1, seen)
            if not ok:
                return ok, why
        return True, f"wraps parameter '{node.id}', bound at {len(sites)} call site(s) to a callable made by a derivative factory"
    if isinstance(node, ast.Name) and node.id in assigns and depth < 4:
        for v in assigns[node.id]:
            if isinstance(v, ast.AST):
                ok, why = _origin(prog, fi, v, fact_names, assigns, depth + 1, seen)
                if not ok:
                    return ok, why
        return True, f"wraps a callable bound to '{node.id}', made by a derivative factory"
    if isinstance(node, ast.Subscript) and isinstance(node.slice, ast.Constant):
        key = node.slice.value
        if key in seen:
            return True, "re-read of the same cache entry"
        seen.add(key)
        # find the stores under that key anywhere in the solver modules
        from .common import cache_entry_stores
        found = [_origin(prog, f2, v, fact_names, a2, depth + 1, seen) for f2, v, a2 in cache_entry_stores(prog, key, lambda m: m.name.startswith("optyx.solvers"))]
        if not found:
            return None, f"no store under cache key {key!r} found"
        if all(ok for ok, _ in found):
            return True, f"wraps cache[{key!r}], stored from a derivative factory"
        if any(ok is None for ok, _ in found) and not any(ok is False for ok, _ in found):
            return None, next(w for ok, w in found if ok is None)
        return False, f"cache[{key!r}] is not (only) stored from a derivative factory"
    if isinstance(node, ast.Attribute) and depth < 4:
        # kept on an object (problem._hess_cache = compile_hessian(..)): follow the stores into that attribute
        key = "attr:" + node.attr
        if key in seen:
            return True, "re-read of the same attribute"
        seen.add(key)
        stores = [(f2, n.value) for f2 in prog.functions.values() if f2.module.name.startswith("optyx.") for n in walk_local(f2.node, include_self=False)
                  if isinstance(n, (ast.Assign, ast.AnnAssign)) and getattr(n, "value", None) is not None
                  and any(isinstance(t, ast.Attribute) and t.attr == node.attr for t in (n.targets if isinstance(n, ast.Assign) else [n.target]))
                  and not (isinstance(n.value, ast.Constant) and n.value.value is None)]
        if stores:
            return _all3([_origin(prog, f2, val, fact_names, local_assignments(f2.node), depth + 1, seen) for f2, val in stores])
    if isinstance(node, ast.Call) and isinstance(node.func, ast.Name) and node.func.id in {f.name for f in prog.functions.values() if f.module is fi.module and f.parent is None}:
        # a wrapper factory of the solver module (e.g. a sign-flipping wrapper around the compiled callable)
        g = next(f for f in prog.functions.values() if f.module is fi.module and f.parent is None and f.name == node.func.id)
        for cl, _ret in returned_closures(prog, g):
            ok, why = _closure_wraps(prog, g, cl, fact_names, local_assignments(g.node))
            if ok is not True:
                return (None if ok is None else ok), why
            return True, f"{g.name}(..) wraps a factory-made callable"
    return None, f"cannot trace {src(node)[:40]} to a derivative factory"
