"""C12 -- parameter updates are honoured by every later evaluation and solve.

R12.1 no eager read: every read of `.value` / `._value` in the package is classified; outside the value classes
      themselves it must be (a) dominated by isinstance(<same object>, Constant) -- Parameter is not a Constant --
      or (b) inside a call-time closure that captured the Parameter object
R12.3 no degree arm gives Parameter a finite degree (so parameterised models never reach the LP path whose cache
      holds frozen numbers); Parameter is not a subclass of Constant
R12.4 Parameter arms bind the object (not a number) into the closure
R12.5 Parameter.set is the only writer of _value outside __init__
"""

from __future__ import annotations

import ast
import re

from ..astutil import dotted, src, walk_local, local_assignments, dominating_guards, preceding_exit_guards, enclosing_function, FUNC_NODES
from ..dispatch import dispatcher, exact_arm
from ..logic import formula, And, Not, atom, TRUE, counterexample, implies
from ..report import AnalysisError, Frag

OWN_CLASSES = {"Constant", "Parameter", "VectorParameter", "MatrixParameter"}
SKIP_MODULES = {"optyx.solution", "optyx.core.errors", "optyx.core.verification"}


def path_formula(node):
    gs = dominating_guards(node) + preceding_exit_guards(node)
    return And(*[(formula(t) if pol else Not(formula(t))) for t, pol in gs]) if gs else TRUE


def implied_constant(node, recv_src, fn_assigns):
    pf = path_formula(node)
    for a in pf.atoms():
        m = re.fullmatch(r"isinstance\((.+), (\(?[\w, ]+\)?)\)", a)
        if not m:
            continue
        subj, ks = m.group(1), m.group(2).strip("()").replace(" ", "").split(",")
        if subj == recv_src and set(ks) <= {"Constant", "int", "float"} and "Constant" in ks:
            if implies(pf, atom(a)):
                return True
    # boolean local: all_constant = all(isinstance(X, Constant) for ...) ; read is cast(Constant, X).value under `if all_constant`
    m = re.fullmatch(r"cast\(Constant, (.+)\)", recv_src)
    if m:
        x = m.group(1)
        for a in pf.atoms():
            if a in fn_assigns and implies(pf, atom(a)):
                for v in fn_assigns[a]:
                    s = src(v) if isinstance(v, ast.AST) else ""
                    if s.startswith("all(") and f"isinstance({x}, Constant)" in s:
                        return True
    return False


def _guard_evidence(fi, node, recv, assigns):
    """'unknown' if the function tests the receiver's kind somewhere -- isinstance(recv, <kinds that exclude Parameter>),
    possibly through a local alias of the receiver, or hands it to a predicate call in a guard -- without that test
    dominating the read in the if/and form this rule follows; 'none' if there is no such test at all (or every test
    admits Parameter)."""
    def kinds_of(t):
        ks = []
        for e in (t.elts if isinstance(t, ast.Tuple) else [t]):
            if isinstance(e, ast.Name) and e.id in assigns and len(assigns[e.id]) == 1 and isinstance(assigns[e.id][0], ast.Tuple):
                ks += [src(x) for x in assigns[e.id][0].elts]
            else:
                ks.append(src(e))
        return ks

    base = recv
    names = {recv}
    # local aliases of the receiver (lhs = expr.left) and the receiver's own alias source
    for nm, vals in assigns.items():
        if any(isinstance(v, ast.AST) and src(v) == recv for v in vals):
            names.add(nm)
    if recv in assigns:
        names |= {src(v) for v in assigns[recv] if isinstance(v, ast.AST)}
    # a receiver bound by a comprehension is only in scope inside that comprehension
    scope = fi.node
    p_ = getattr(node, "_parent", None)
    while p_ is not None and p_ is not fi.node:
        if isinstance(p_, (ast.ListComp, ast.GeneratorExp, ast.SetComp, ast.DictComp)) and any(isinstance(x, ast.Name) and x.id == recv for g in p_.generators for x in ast.walk(g.target)):
            scope = p_
            break
        p_ = getattr(p_, "_parent", None)
    # a duck-typing guard is positively the wrong one: a Parameter has .value too
    for t, pol in dominating_guards(node):
        if pol and isinstance(t, ast.Call) and dotted(t.func) == "hasattr" and len(t.args) == 2 and src(t.args[0]) in names and isinstance(t.args[1], ast.Constant) and t.args[1].value in ("value", "_value"):
            return "none"
    for c in (ast.walk(scope) if scope is not fi.node else walk_local(fi.node)):
        if isinstance(c, ast.Call) and dotted(c.func) == "isinstance" and len(c.args) == 2 and src(c.args[0]) in names:
            ks = kinds_of(c.args[1])
            if "Constant" in ks and "Parameter" not in ks:
                return "unknown"
    for t, _pol in dominating_guards(node) + preceding_exit_guards(node):
        for c in ast.walk(t):
            if isinstance(c, ast.Call) and dotted(c.func) not in ("isinstance", "hasattr", "len") and any(src(a) in names for a in c.args):
                if (dotted(c.func) or "").split(".")[-1] in ("get_all_variables", "get_variables", "_get_variables_iterative"):
                    continue        # "has no variables" is positively not "holds no Parameter": (2 * p) has no variables
                return "unknown"
    return "none"


CHILD_FIELDS = {"left", "right", "operand", "base", "exponent", "expr", "expression", "lhs", "rhs", "vector", "matrix", "condition"}
NODE_NAMES = {"expr", "expression", "node", "child", "term", "operand", "left", "right"}


def _node_evidence(prog, fi, cls, node, recv, assigns):
    """True: the receiver is positively an expression-tree node (a child field of one, annotated as one, kind-tested
    somewhere in the function, or duck-tested for .value); False: it is the object / class of a class outside the
    expression hierarchy (its own attribute); None: nothing says."""
    root = recv.split(".")[0].split("[")[0].split("(")[0]
    first = fi.node.args.args[0].arg if isinstance(fi.node, (ast.FunctionDef, ast.AsyncFunctionDef)) and fi.node.args.args else None
    in_hierarchy = cls is not None and (prog.is_subclass(cls.name, "Expression") or cls.name == "Expression")
    if fi.cls is not None and root == first and root in ("self", "cls") and recv == root and not in_hierarchy:
        return False
    parts = recv.replace("]", "").replace("[", ".").split(".")
    if len(parts) > 1 and parts[-1] in CHILD_FIELDS:
        return True
    if in_hierarchy and root == "self":
        return True
    if recv.startswith("cast("):
        return True
    for a_ in getattr(fi.node, "args", None).args + getattr(fi.node, "args", None).kwonlyargs if hasattr(fi.node, "args") else []:
        if a_.arg == root and a_.annotation is not None:
            ann = ast.unparse(a_.annotation)
            if any(k in ann for k in ("Expression", "Constant", "Parameter", "BinaryOp", "UnaryOp", "Variable")):
                return True
    names = {recv}
    if recv in assigns:
        for v in assigns[recv]:
            if isinstance(v, ast.AST):
                sv = src(v)
                names.add(sv)
                if isinstance(v, ast.Attribute) and v.attr in CHILD_FIELDS:
                    return True
    for c in ast.walk(fi.node):
        if isinstance(c, ast.Call) and dotted(c.func) in ("isinstance", "hasattr") and len(c.args) == 2 and src(c.args[0]) in names:
            if dotted(c.func) == "hasattr":
                if isinstance(c.args[1], ast.Constant) and c.args[1].value in ("value", "_value"):
                    return True
                continue
            ks = c.args[1].elts if isinstance(c.args[1], ast.Tuple) else [c.args[1]]
            for k in ks:
                kn = src(k).split(".")[-1]
                try:
                    if prog.is_subclass(kn, "Expression") or kn == "Expression":
                        return True
                except Exception:
                    pass
    if root in NODE_NAMES and recv == root:
        return True
    return None


def check(prog, rep):
    from . import pitfalls as _pit
    rep.section(_pit.report, prog, rep, 'R12.P', ['src/optyx/core/parameters.py'], ('P1', 'P3'))
    # ------------------------------------------------------------------ F1
    ok = not prog.is_subclass("Parameter", "Constant") and not prog.is_subclass("Constant", "Parameter")
    rep.ob("R12.3", "Parameter", ok, "Parameter is not a subclass of Constant (isinstance(.., Constant) guards exclude it)" if ok else "Parameter and Constant are in a subclass relation: every `isinstance(x, Constant)` folding site would freeze parameter values", loc=prog.cls("Parameter").loc, detail="not-a-constant")

    # ------------------------------------------------------------------ R12.1
    n_sites = 0
    for fi in prog.functions.values():
        if fi.module.name in SKIP_MODULES:
            continue
        owner = fi
        cls = None
        while owner is not None and cls is None:
            cls = owner.cls
            owner = owner.parent
        assigns = local_assignments(fi.node)
        for n in walk_local(fi.node):
            if not (isinstance(n, ast.Attribute) and n.attr in ("value", "_value") and isinstance(n.ctx, ast.Load)):
                continue
            recv = src(n.value)
            par = getattr(n, "_parent", None)
            if isinstance(par, ast.Call) and par.func is n:
                continue  # a method named value(...)
            n_sites += 1
            construct = f"{fi.qual.split(':')[1]}:{recv}.{n.attr}"
            loc = f"{fi.module.rel}:{n.lineno}"
            if cls is not None and cls.name in OWN_CLASSES and (recv == "self" or recv in ("p", "param")):
                rep.ob("R12.1", construct, True, f"own state of {cls.name}", loc=loc, detail="own-state", trivial=True)
                continue
            # call-time closure: the enclosing lambda/def is a closure built by a factory and the receiver is its
            # parameter bound (by default argument) to an object
            lam = enclosing_function(n)
            if isinstance(lam, ast.Lambda) or (isinstance(lam, ast.FunctionDef) and lam is not fi.node):
                args = lam.args
                defaults = dict(zip([a.arg for a in args.args][::-1], args.defaults[::-1]))
                if recv in defaults or recv in {a.arg for a in args.args}:
                    bound = defaults.get(recv)
                    is_obj = bound is None or not (isinstance(bound, ast.Attribute) and bound.attr in ("value", "_value"))
                    rep.ob("R12.1", construct, is_obj, "read inside the closure body at call time; the closure holds the object" if is_obj else "the closure is bound to a number read when it was built", loc=loc, detail="call-time")
                    continue
            if fi.parent is not None and isinstance(fi.node, ast.FunctionDef) and lam is fi.node:
                # a nested def that its factory hands out (returns / stores) without calling it: its body runs at call
                # time, and a receiver captured from the factory's scope is the object itself
                par_ = fi.parent
                handed = any(isinstance(r, ast.Return) and isinstance(r.value, ast.Name) and r.value.id == fi.node.name for r in walk_local(par_.node, include_self=False))
                called = any(isinstance(c_, ast.Call) and isinstance(c_.func, ast.Name) and c_.func.id == fi.node.name for c_ in walk_local(par_.node, include_self=False))
                own = {a.arg for a in fi.node.args.args} | set(assigns)
                root = recv.split(".")[0].split("[")[0]
                if handed and not called and root not in own:
                    pasg = local_assignments(par_.node)
                    frozen = any(isinstance(v, ast.Attribute) and v.attr in ("value", "_value") for v in pasg.get(root, []) if isinstance(v, ast.AST))
                    rep.ob("R12.1", construct, not frozen, "read inside the returned closure at call time; the closure captured the object" if not frozen else f"the closure captured `{root}`, a number read when it was built", loc=loc, detail="call-time", robust=True)
                    continue
            if implied_constant(n, recv, assigns):
                rep.ob("R12.1", construct, True, f"dominated by isinstance({recv}, Constant): cannot be a Parameter", loc=loc, detail="constant-guarded")
                continue
            # positively a Parameter: the read sits under `isinstance(<recv>, Parameter)` (and outside any closure)
            under_param = False
            for t_, pol_ in dominating_guards(n):
                if pol_ and isinstance(t_, ast.Call) and dotted(t_.func) == "isinstance" and len(t_.args) == 2 and src(t_.args[0]) == recv:
                    ks_ = t_.args[1].elts if isinstance(t_.args[1], ast.Tuple) else [t_.args[1]]
                    if any(src(k_).split(".")[-1] in ("Parameter", "VectorParameter", "MatrixParameter") for k_ in ks_) and not any(src(k_).split(".")[-1] == "Constant" for k_ in ks_):
                        under_param = True
            if under_param and (lam is fi.node) and fi.cls is None:
                rep.ob("R12.1", construct, False,
                       f"reads {recv}.{n.attr} under `isinstance({recv}, Parameter)` while the artefact is being built: the parameter's value at that moment is what the result keeps, later Parameter.set() calls are ignored",
                       loc=loc, detail="eager-read", robust=True)
                continue
            # the receiver is an element handed out by a generator / helper call (`for factor, f in self._pairs():`): what
            # kinds it yields is decided there
            root_ = recv.split(".")[0].split("[")[0]
            from_call = False
            for lp_ in ast.walk(fi.node):
                it_ = lp_.iter if isinstance(lp_, (ast.For, ast.comprehension)) else None
                if it_ is not None and any(isinstance(x_, ast.Name) and x_.id == root_ for x_ in ast.walk(lp_.target)):
                    for c_ in ast.walk(it_):
                        if isinstance(c_, ast.Call) and (dotted(c_.func) or "") not in ("enumerate", "zip", "range", "reversed", "sorted", "list", "tuple", "iter"):
                            from_call = True
            if from_call and recv == root_:
                rep.undecided(f"{construct}: {recv} is yielded by a call in the loop header; which kinds that call hands out is not followed")
                continue
            # the receiver is handed in by the caller: the kind test may sit at the call site (or in the annotation)
            prm_ = next((a_ for a_ in fi.node.args.args + fi.node.args.kwonlyargs if a_.arg == root_), None)
            if prm_ is not None and root_ not in ("self", "cls") and root_ not in assigns and recv == root_:
                ann_ = ast.unparse(prm_.annotation) if prm_.annotation is not None else ""
                if "Constant" in ann_ and "Parameter" not in ann_ and "Expression" not in ann_:
                    rep.ob("R12.1", construct, True, f"{recv} is declared a Constant ({ann_})", loc=loc, detail="constant-typed", robust=True)
                else:
                    # look at the call sites: every one under isinstance(<argument>, Constant) -> fine; one that passes an
                    # expression nobody tested -> that is the eager read
                    from ..inline import call_sites, bind_args
                    sites = [(c_fi, c_) for c_fi, c_ in call_sites(prog, fi, "optyx") if c_fi is not fi]
                    verdicts = []
                    for c_fi, c_ in sites:
                        try:
                            arg_ = bind_args(fi.node, c_).get(root_)
                        except Exception:
                            arg_ = None
                        if arg_ is None and fi.cls is not None and isinstance(c_.func, ast.Attribute):
                            # bound method: parameters shift by one
                            ps_ = [a_.arg for a_ in fi.node.args.args][1:]
                            arg_ = c_.args[ps_.index(root_)] if root_ in ps_ and ps_.index(root_) < len(c_.args) else next((k_.value for k_ in c_.keywords if k_.arg == root_), None)
                        if arg_ is None:
                            verdicts.append(None)
                            continue
                        c_asg = local_assignments(c_fi.node)
                        if isinstance(arg_, ast.Call) and dotted(arg_.func) == "Constant":
                            verdicts.append(True)
                        elif implied_constant(c_, src(arg_), c_asg):
                            verdicts.append(True)
                        elif _guard_evidence(c_fi, c_, src(arg_), c_asg) == "none" and not isinstance(arg_, ast.Call):
                            verdicts.append((c_fi, c_, arg_))
                        else:
                            verdicts.append(None)
                    bad_ = [v_ for v_ in verdicts if isinstance(v_, tuple)]
                    if sites and all(v_ is True for v_ in verdicts):
                        rep.ob("R12.1", construct, True, f"every call site passes a node tested with isinstance(.., Constant) ({len(sites)} site(s))", loc=loc, detail="constant-at-call-sites", robust=True)
                    elif bad_:
                        c_fi, c_, arg_ = bad_[0]
                        rep.ob("R12.1", construct, False,
                               f"reads {recv}.{n.attr} with no kind test, and {c_fi.qual.split(':')[1]} ({c_fi.module.rel}:{c_.lineno}) passes `{src(arg_)[:40]}`, which nothing there establishes to be a Constant: "
                               f"a Parameter has a .value too, so its current value is folded into the built artefact and later Parameter.set() calls are ignored",
                               loc=loc, detail="eager-read", robust=True)
                    else:
                        rep.undecided(f"{construct}: {recv} is a parameter of {fi.name}; whether callers only pass Constant nodes is not decided here")
                continue
            node_ev = _node_evidence(prog, fi, cls, n, recv, assigns)
            if node_ev is False:
                rep.ob("R12.1", construct, True, f"{recv} is the object / class of {cls.name if cls else '?'}, which is not an expression node: its own attribute", loc=loc, detail="own-state", trivial=True)
                continue
            verdict = _guard_evidence(fi, n, recv, assigns)
            if node_ev is None and verdict == "none":
                rep.undecided(f"{construct}: nothing in {fi.name} says what kind of object {recv} is (no kind test, not a child field of an expression node, no annotation): whether it can be a Parameter is not decided")
                continue
            if verdict == "unknown":
                rep.undecided(f"{construct}: {recv} is tested with isinstance(.., Constant) / by a predicate in this function, but the test does not dominate the read in a way this rule can follow (loop-else, flag, helper): not decided")
                continue
            rep.ob("R12.1", construct, False,
                   f"reads {recv}.{n.attr} while building derived artefacts without an isinstance({recv}, Constant) guard: if {recv} is a Parameter its current value is frozen into a closure / rule term / LP datum / degree and later Parameter.set() calls are ignored",
                   loc=loc, detail="eager-read")
    for fi in prog.functions.values():
        if fi.module.name in SKIP_MODULES:
            continue
        for n in walk_local(fi.node):
            if isinstance(n, ast.Call) and dotted(n.func) == "getattr" and len(n.args) >= 2 and isinstance(n.args[1], ast.Constant) and n.args[1].value in ("value", "_value"):
                recv = src(n.args[0])
                ok = implied_constant(n, recv, local_assignments(fi.node))
                n_sites += 1
                rep.ob("R12.1", f"{fi.qual.split(':')[1]}:getattr({recv}, 'value')", ok,
                       f"dominated by isinstance({recv}, Constant)" if ok else
                       f"reads the value of {recv} through getattr without an isinstance({recv}, Constant) guard: a Parameter has a .value too, so its current value is folded into the built artefact",
                       loc=f"{fi.module.rel}:{n.lineno}", detail="eager-read")
    # build-time evaluation of a sub-expression inside an artefact builder reads every leaf beneath it, Parameters included
    n_eval = 0
    for fi in prog.functions.values():
        if fi.module.name not in ("optyx.core.compiler", "optyx.core.autodiff"):
            continue
        assigns = local_assignments(fi.node)
        top = fi
        while top.parent is not None:
            top = top.parent
        returns_closure = any(isinstance(r, ast.Return) and (isinstance(r.value, ast.Lambda) or (isinstance(r.value, ast.Name) and any(isinstance(d, ast.FunctionDef) and d.name == r.value.id for d in ast.walk(top.node) if d is not top.node)))
                              for r in ast.walk(top.node))
        if not returns_closure:
            continue
        # callables this builder compiled itself: calling one while building evaluates the expression now
        compiled_here = {nm: v for nm, vals in assigns.items() for v in vals if isinstance(v, ast.Call) and (dotted(v.func) or "").split(".")[-1] in ("compile_expression", "_compile_cached", "_build_evaluator", "_build_evaluator_iterative") and v.args}
        for n in walk_local(fi.node):
            if isinstance(n, ast.Call) and isinstance(n.func, ast.Name) and n.func.id in compiled_here and enclosing_function(n) is fi.node and not (fi.parent is not None and fi.node.args.args and fi.node.args.args[0].arg in ("x", "values", "point")):
                src_expr = compiled_here[n.func.id].args[0]
                recv = src(src_expr)
                n_eval += 1
                construct = f"{fi.qual.split(':')[1]}:{n.func.id}(..)"
                loc = f"{fi.module.rel}:{n.lineno}"
                if implied_constant(n, recv, assigns):
                    rep.ob("R12.1", construct, True, f"dominated by isinstance({recv}, Constant)", loc=loc, detail="constant-guarded", robust=True)
                    continue
                verdict = _guard_evidence(fi, n, recv, assigns)
                if verdict == "unknown":
                    rep.undecided(f"{construct}: the callable compiled from `{recv}` is called while the artefact is built, under a test of {recv} this rule cannot follow: not decided")
                    continue
                rep.ob("R12.1", construct, False,
                       f"`{src(n)[:50]}` calls the callable compiled from `{recv}` while the artefact is being built and keeps the number: nothing establishes that `{recv}` holds no Parameter "
                       f"(having no *variables* does not), so the parameter's value at compile time is frozen into the result and later Parameter.set() calls are ignored",
                       loc=loc, detail="eager-read", robust=True)
        for n in walk_local(fi.node):
            if not (isinstance(n, ast.Call) and isinstance(n.func, ast.Attribute) and n.func.attr == "evaluate"):
                continue
            lam = enclosing_function(n)
            if lam is not fi.node:
                continue                      # inside a lambda: call time
            if fi.parent is not None and fi.node.args.args and fi.node.args.args[0].arg in ("x", "values", "point"):
                continue                      # a nested closure body (def f(x): ...): call time
            fparams = {a.arg for a in fi.node.args.args + fi.node.args.kwonlyargs}
            if n.args and isinstance(n.args[0], ast.Name) and n.args[0].id in fparams:
                continue                      # evaluates at values the caller supplies
            recv = src(n.func.value)
            n_eval += 1
            construct = f"{fi.qual.split(':')[1]}:{recv}.evaluate()"
            loc = f"{fi.module.rel}:{n.lineno}"
            if implied_constant(n, recv, assigns):
                rep.ob("R12.1", construct, True, f"dominated by isinstance({recv}, Constant)", loc=loc, detail="constant-guarded", robust=True)
                continue
            verdict = _guard_evidence(fi, n, recv, assigns)
            if verdict == "none":
                for t, _pol in dominating_guards(n) + preceding_exit_guards(n):
                    for c in ast.walk(t):
                        if isinstance(c, ast.Call) and isinstance(c.func, ast.Attribute) and src(c.func.value) == recv and c.func.attr not in ("get_variables", "evaluate"):
                            verdict = "unknown"
            if verdict == "unknown":
                rep.undecided(f"{construct}: evaluated while the artefact is built, under a test of {recv} this rule cannot follow: not decided")
                continue
            rep.ob("R12.1", construct, False,
                   f"`{src(n)[:50]}` evaluates the sub-expression while the compiled artefact is being built and the number is captured by the returned closure; nothing establishes that {recv} holds no Parameter "
                   f"(having no *variables* does not: (2 * p) * x has a variable-free factor 2 * p), so the parameter's value at compile time is frozen and later Parameter.set() calls are ignored",
                   loc=loc, detail="eager-read", robust=True)
    rep.saw("build-time evaluate() calls in artefact builders", n_eval)
    rep.saw("`.value` read sites classified", n_sites)
    # isinstance tests that put Parameter next to Constant in folding code
    for fi in prog.functions.values():
        if fi.module.name in SKIP_MODULES or fi.module.name == "optyx.problem":
            continue
        for n in walk_local(fi.node):
            if isinstance(n, ast.Call) and dotted(n.func) == "isinstance" and len(n.args) == 2 and isinstance(n.args[1], ast.Tuple):
                ks = {src(e) for e in n.args[1].elts}
                if Frag(ks, "Parameter", "Constant"):
                    # acceptable only where no value is folded (e.g. "contributes no variables")
                    par = getattr(n, "_parent", None)
                    body = par.body if isinstance(par, ast.If) else []
                    folds = any(isinstance(x, ast.Attribute) and x.attr in ("value", "_value") for st in body for x in ast.walk(st))
                    rep.ob("R12.1", f"{fi.qual.split(':')[1]}:isinstance(.., (Constant, Parameter))", not folds, "Constant and Parameter are treated alike only where no value is read" if not folds else "a branch taken for Constant OR Parameter reads .value at build time", loc=f"{fi.module.rel}:{n.lineno}", detail="mixed-guard")

    # ------------------------------------------------------------------ R12.3
    for q in ("optyx.analysis:_compute_degree_impl", "optyx.analysis:_compute_degree_iterative"):
        fi = prog.func(q)
        d = dispatcher(prog, fi)
        a = d.handler(prog, "Parameter")
        ok = a is None
        if a is not None:
            from .c04 import answer_sites

            ok = all(s.is_none for s in answer_sites(a.body, a.node))
        from .c04 import answer_sites as _as
        if a is None:
            try:
                dsites = _as(d.default, None) if d.default else []
            except AnalysisError as e:
                rep.undecided(f"R12.3 {fi.name}: what a Parameter node (no arm of its own) is answered with is not readable: {e}")
                continue
            if not dsites:
                rep.undecided(f"R12.3 {fi.name}: no answer site in the default path; what a Parameter node is answered with is not readable")
                continue
            dflt_none = all(s.is_none for s in dsites)
        else:
            dflt_none = True
        rep.ob("R12.3", fi.name, ok and dflt_none, "Parameter has no polynomial degree (None): a model containing one is never classified linear, hence never frozen into LP data" if ok and dflt_none else "Parameter nodes are given a finite degree: a parameterised model can be routed to the LP path, whose cached matrices hold the parameter's old value", loc=fi.loc, detail="parameter-degree-none")
    P = prog.cls("Problem")
    lin = P.methods.get("_is_linear_problem")
    lp = prog.func("optyx.solvers.lp_solver:solve_lp")
    from ..callgraph import CallGraph

    cg = CallGraph(prog)
    target = prog.func("optyx.analysis:is_linear")

    def consults(fi, depth=0):
        """fi calls is_linear itself, or through module-level / same-class helpers (two levels)."""
        if fi is None:
            return False
        cs = cg.callees(fi)
        if any(c is target for c in cs):
            return True
        return depth < 2 and any(consults(c, depth + 1) for c in cs if c.module is fi.module and c.parent is None)

    ok = consults(lin) and consults(lp)
    if ok:
        rep.ob("R12.3", "routing", True, "both the auto router and solve_lp consult is_linear (degree-based; C04 decides what the verdict is made of, C06/C08 what solve_lp does with it)", loc=lp.loc, detail="lp-gated-by-degree")
    else:
        who = "Problem._is_linear_problem" if not consults(lin) else "solve_lp"
        rep.undecided(f"R12.3 routing: no call path from {who} to analysis.is_linear was found (helpers of the same module, two levels); whether the LP path is still gated by the degree-based linearity test is not decided")

    # ------------------------------------------------------------------ R12.4
    from .c01 import evaluator_builders

    (rec, drec), (it, dit) = evaluator_builders(prog)
    for fi, d in ((rec, drec), (it, dit)):
        a = exact_arm(d, prog, "Parameter")
        if a is None or "Parameter" not in a.kinds:
            raise AnalysisError(f"{fi.name}: Parameter arm not found")
        lams = [x for st in a.body for x in ast.walk(st) if isinstance(x, ast.Lambda)]
        env = {}
        for st in a.body:
            if isinstance(st, ast.Assign) and isinstance(st.targets[0], ast.Name):
                env[st.targets[0].id] = st.value
        ok = False
        for lam in lams:
            for dflt in lam.args.defaults:
                o = env.get(dflt.id) if isinstance(dflt, ast.Name) else dflt
                if o is not None and src(o) == d.subject:
                    ok = True
        rep.ob("R12.4", fi.name, ok, "the closure's default argument is the Parameter node itself" if ok else "the Parameter arm does not bind the Parameter object into the closure", loc=f"{fi.module.rel}:{a.lineno}", detail="binds-object")

    # ------------------------------------------------------------------ R12.5 (b): set() stores what it is given
    # An update may be skipped when the new value IS the old one; skipping it when it is only CLOSE to the old one
    # (np.isclose / allclose / math.isclose, whose default tolerances are rtol 1e-5, atol 1e-8) drops small updates:
    # later evaluations and solves keep the previous value.
    n_set = 0
    for cname in ("Parameter", "VectorParameter", "MatrixParameter"):
        if cname not in prog.classes:
            continue
        for mname, m_ in prog.cls(cname).methods.items():
            if not (mname == "set" or mname.startswith("set_") or mname == "__setitem__"):
                continue
            n_set += 1
            tol = [c_ for c_ in ast.walk(m_.node) if isinstance(c_, ast.Call) and (dotted(c_.func) or "").split(".")[-1] in ("isclose", "allclose")]
            # a symmetry check of a matrix against its own transpose is not a comparison with the old value
            tol = [c_ for c_ in tol if not any(src(a_).endswith(".T") for a_ in c_.args)]
            if tol:
                rep.ob("R12.5", f"{cname}.{mname}", False,
                       f"`{src(tol[0])[:60]}` decides which entries count as changed: an update that differs from the stored value by less than the tolerance (default rtol 1e-5, atol 1e-8) is not written, so the parameter keeps its old value "
                       f"and every later evaluation / solve ignores the update",
                       loc=f"{m_.module.rel}:{tol[0].lineno}", detail="set-within-tolerance", robust=True)
    rep.saw("parameter setters scanned", n_set)
    # ------------------------------------------------------------------ R12.5
    writers = []
    for fi in prog.functions.values():
        for n in walk_local(fi.node):
            if isinstance(n, (ast.Assign, ast.AugAssign, ast.AnnAssign)):
                tg = n.targets if isinstance(n, ast.Assign) else [n.target]
                for t in tg:
                    if isinstance(t, ast.Attribute) and t.attr == "_value":
                        writers.append((fi, n))
    names = sorted({f.qual.split(":")[1] for f, _ in writers})
    # private helpers of Parameter that are only called from __init__ / set (or from such helpers) write on their behalf
    allowed = {"Parameter.__init__", "Parameter.set"}
    Pcls = prog.cls("Parameter")
    grew = True
    while grew:
        grew = False
        for mname, m_ in Pcls.methods.items():
            q_ = f"Parameter.{mname}"
            if q_ in allowed or not mname.startswith("_") or mname.startswith("__"):
                continue
            callers = {f_.qual.split(":")[1] for f_ in prog.functions.values() for c_ in walk_local(f_.node) if isinstance(c_, ast.Call) and isinstance(c_.func, ast.Attribute) and c_.func.attr == mname}
            if callers and callers <= allowed:
                allowed.add(q_)
                grew = True
    ok = set(names) <= allowed
    rep.ob("R12.5", "Parameter._value", ok, robust=True, msg= f"written only by {names}" if ok else f"Parameter._value is also written by {sorted(set(names) - allowed)}", loc=prog.cls("Parameter").loc, detail="writers")
    # gradient of a Parameter is a fresh constant 0, never its value (C02 R02.3), and the LP extractors only read
    # Constant-guarded values (R12.1)
    _solver_build_time_calls(prog, rep)
    rep.expect_min("R12.1", 40)
    rep.expect_min("R12.3", 4)
    rep.expect_min("R12.4", 2)
    rep.explanation = (
        "Non-interference over all set/solve/evaluate histories: every read of a node's .value in code that builds "
        "closures, caches, rule terms, LP data or degrees is either dominated (path formula, truth table) by "
        "isinstance(<that object>, Constant) -- and Parameter is not a Constant -- or happens inside a call-time closure "
        "that captured the Parameter object. Parameters have no polynomial degree, so the LP path (whose cache holds "
        "numbers) is unreachable for them. Numeric results after an update are not decided."
    )
    rep.note("MatrixParameter hands out array snapshots (M @ x, .values, .row) by design and cannot be referenced symbolically; outside what this property can observe")


def _kept(fn_node, call):
    """Is the number returned by ``call`` (made while ``fn_node`` runs) kept in what the function produces -- bound to a
    local that a nested function reads, that is returned, or that is stored into a container?  None: not kept / not seen."""
    parents = {}
    for n in ast.walk(fn_node):
        for c in ast.iter_child_nodes(n):
            parents[id(c)] = n
    cur = call
    while id(cur) in parents and isinstance(parents[id(cur)], ast.Call) and dotted(parents[id(cur)].func) in ("float", "np.asarray", "np.array", "np.float64"):
        cur = parents[id(cur)]
    st = parents.get(id(cur))
    if isinstance(st, ast.Return):
        return "returned"
    if isinstance(st, ast.Assign) and len(st.targets) == 1 and isinstance(st.targets[0], ast.Subscript):
        return f"stored in `{src(st.targets[0])}`"
    if not (isinstance(st, (ast.Assign, ast.AnnAssign)) and isinstance(st.targets[0] if isinstance(st, ast.Assign) else st.target, ast.Name)):
        return None
    nm = (st.targets[0] if isinstance(st, ast.Assign) else st.target).id
    for n in ast.walk(fn_node):
        if isinstance(n, (ast.FunctionDef, ast.Lambda)) and n is not fn_node:
            if any(isinstance(x, ast.Name) and x.id == nm and isinstance(x.ctx, ast.Load) for x in ast.walk(n)):
                return f"captured as `{nm}` by the closure {getattr(n, 'name', '<lambda>')}"
        if isinstance(n, ast.Return) and n.value is not None and enclosing_function(n) is fn_node and any(isinstance(x, ast.Name) and x.id == nm for x in ast.walk(n.value)):
            return f"returned as `{nm}`"
        if isinstance(n, ast.Assign) and isinstance(n.targets[0], ast.Subscript) and enclosing_function(n) is fn_node and any(isinstance(x, ast.Name) and x.id == nm for x in ast.walk(n.value)):
            return f"stored in `{src(n.targets[0])}`"
    return None


def _solver_build_time_calls(prog, rep):
    """A solver-cache builder compiles the objective / constraint bodies once and keeps the callables; the callables read
    Parameters when they are called.  Calling one WHILE the cache is built and keeping the number (directly, or in a
    module helper the callable is handed to) freezes the parameters' values at build time into the cache."""
    for fi in prog.functions.values():
        if not fi.module.name.startswith(("optyx.solvers", "optyx.problem")) or fi.parent is not None:
            continue
        assigns = local_assignments(fi.node)
        compiled = {nm for nm, vals in assigns.items() for v in vals if isinstance(v, ast.Call) and (dotted(v.func) or "").split(".")[-1] == "compile_expression"}
        if not compiled:
            continue
        for n in walk_local(fi.node):
            if not isinstance(n, ast.Call):
                continue
            if isinstance(n.func, ast.Name) and n.func.id in compiled and enclosing_function(n) is fi.node:
                kept = _kept(fi.node, n)
                if kept:
                    rep.ob("R12.1", f"{fi.name}:{n.func.id}(..)", False,
                           f"`{src(n)[:50]}` calls the compiled body while {fi.name} builds the per-problem cache and the number is {kept}: a Parameter in that body is read now, and Parameter.set() before a later solve "
                           f"(which does not rebuild the cache) is ignored", loc=f"{fi.module.rel}:{n.lineno}", detail="eager-read", robust=True)
                continue
            h = prog.functions.get(f"{fi.module.name}:{dotted(n.func)}") if isinstance(n.func, ast.Name) else None
            if h is None or h is fi:
                continue
            from ..inline import bind_args
            try:
                bound = bind_args(h.node, n)
            except Exception:
                continue
            for prm, arg in bound.items():
                if not (isinstance(arg, ast.Name) and arg.id in compiled):
                    continue
                for c in walk_local(h.node):
                    if isinstance(c, ast.Call) and isinstance(c.func, ast.Name) and c.func.id == prm and enclosing_function(c) is h.node:
                        kept = _kept(h.node, c)
                        if kept:
                            rep.ob("R12.1", f"{fi.name}:{h.name}({arg.id})", False,
                                   f"{fi.name} hands the compiled body `{arg.id}` to {h.name}(), which calls it at once (`{src(c)[:40]}`, line {c.lineno}) and the number is {kept}: a Parameter in that body is read while the "
                                   f"per-problem cache is built, and Parameter.set() before a later solve (which does not rebuild the cache) is ignored", loc=f"{h.module.rel}:{c.lineno}", detail="eager-read", robust=True)
