"""C14 -- independent models do not interfere through process-wide caches.

R14.1 inventory of memo decorators and module-level mutable containers
R14.2 cache-key congruence: for every cached function and every key component whose class compares by NAME
      (classes overriding __eq__: Variable, Parameter), the work done for a root of that class reads only the
      attributes its __eq__ compares, and the object does not escape into the result if it carries call-time-read
      state -- unless no call site can pass such a root
R14.3 purity: cached functions read no mutable module-level state other than import-time registries
R14.4 eviction neutrality follows from R14.2/R14.3 (a pure function of a congruent key may be recomputed any time)
"""

from __future__ import annotations

import ast

from ..astutil import dotted, src, walk_local, local_assignments, calls, dominating_guards, preceding_exit_guards
from ..callgraph import CallGraph
from ..dispatch import dispatcher, exact_arm
from ..logic import formula, And, Not, atom, TRUE, implies
from ..report import AnalysisError

MEMO_DECOS = ("lru_cache", "cache", "functools.lru_cache", "functools.cache")


def memoised(prog):
    out = []
    for fi in prog.functions.values():
        for d in getattr(fi.node, "decorator_list", []):
            nm = dotted(d.func) if isinstance(d, ast.Call) else dotted(d)
            if nm in MEMO_DECOS:
                out.append(fi)
    return out


def name_equal_classes(prog):
    """Expression subclasses overriding __eq__ -> attributes compared by it."""
    out = {}
    for k in prog.expression_kinds():
        eq = prog.cls(k).methods.get("__eq__")
        if eq is None:
            continue
        attrs = {n.attr for n in walk_local(eq.node) if isinstance(n, ast.Attribute) and dotted(n.value) in ("self", "other")}
        out[k] = attrs
    return out


def check(prog, rep):
    memo = memoised(prog)
    rep.saw("memoised functions", [f.qual for f in memo])
    if len(memo) < 3:
        raise AnalysisError(f"only {len(memo)} memoised functions found (subject vanished)")
    neq = name_equal_classes(prog)
    rep.saw("classes with name equality", {k: sorted(v) for k, v in neq.items()})
    if set(neq) != {"Variable", "Parameter"}:
        rep.note(f"classes overriding __eq__: {sorted(neq)}")
    # identity equality for everything else
    base_eq = prog.cls("Expression").methods.get("__eq__")
    ok = base_eq is not None and "self is other" in src(base_eq.node)
    rep.ob("R14.2", "Expression.__eq__", ok, "interior nodes compare by identity: congruent by construction" if ok else "Expression.__eq__ is not identity", loc=base_eq.loc if base_eq else None, detail="identity")

    # ------------------------------------------------------------------ R14.1 module-level mutable containers
    containers = {}
    for m in prog.modules.values():
        for n in m.tree.body:
            tgt, val = None, None
            if isinstance(n, ast.Assign) and isinstance(n.targets[0], ast.Name):
                tgt, val = n.targets[0].id, n.value
            elif isinstance(n, ast.AnnAssign) and isinstance(n.target, ast.Name):
                tgt, val = n.target.id, n.value
            if tgt and tgt != "__all__" and (isinstance(val, (ast.Dict, ast.List, ast.Set)) or (isinstance(val, ast.Call) and (dotted(val.func) or "").split(".")[-1] in ("set", "dict", "list", "defaultdict", "OrderedDict", "deque", "Counter"))):
                containers[(m.name, tgt)] = n
    writers = {}
    via_alias = {}
    for fi in prog.functions.values():
        # locals that may BE a module container: `opts = given or _DEFAULTS`, `opts = _DEFAULTS if .. else ..`, `opts = _DEFAULTS`
        may_be = {}
        for nm_, vals_ in local_assignments(fi.node).items():
            for v_ in vals_:
                if not isinstance(v_, ast.AST):
                    continue
                cands_ = [v_] + (list(v_.values) if isinstance(v_, ast.BoolOp) else [v_.body, v_.orelse] if isinstance(v_, ast.IfExp) else [])
                for c_ in cands_:
                    if isinstance(c_, ast.Name) and (fi.module.name, c_.id) in containers and c_.id not in local_assignments(fi.node):
                        may_be[nm_] = c_.id
        for n in walk_local(fi.node):
            tgtname = None
            if may_be:
                hit_ = None
                if isinstance(n, (ast.Assign, ast.AugAssign)):
                    for t in (n.targets if isinstance(n, ast.Assign) else [n.target]):
                        if isinstance(t, ast.Subscript) and isinstance(t.value, ast.Name) and t.value.id in may_be:
                            hit_ = may_be[t.value.id]
                if isinstance(n, ast.Call) and isinstance(n.func, ast.Attribute) and isinstance(n.func.value, ast.Name) and n.func.value.id in may_be and n.func.attr in ("append", "update", "add", "setdefault", "pop", "clear", "extend"):
                    hit_ = may_be[n.func.value.id]
                if hit_:
                    writers.setdefault((fi.module.name, hit_), []).append(fi)
                    via_alias.setdefault((fi.module.name, hit_), []).append((fi, n))
            if isinstance(n, ast.Assign):
                for t in n.targets:
                    if isinstance(t, ast.Subscript) and isinstance(t.value, ast.Name):
                        tgtname = t.value.id
            if isinstance(n, ast.Call) and isinstance(n.func, ast.Attribute) and isinstance(n.func.value, ast.Name) and n.func.attr in ("append", "update", "add", "setdefault", "pop", "clear", "extend"):
                tgtname = n.func.value.id
            if tgtname and (fi.module.name, tgtname) in containers and tgtname not in local_assignments(fi.node):
                writers.setdefault((fi.module.name, tgtname), []).append(fi)
    def consulted(key):
        """some function of the package reads entries of the container (lookup, membership, iteration) -- handing out a
        copy for diagnostics and bumping a counter do not count"""
        from ..astutil import parent as _par
        for fi in prog.functions.values():
            if fi.module.name != key[0] or key[1] in local_assignments(fi.node):
                continue
            for n in walk_local(fi.node):
                if not (isinstance(n, ast.Name) and n.id == key[1] and isinstance(n.ctx, ast.Load)):
                    continue
                p_ = _par(n)
                if isinstance(p_, ast.Subscript) and p_.value is n:
                    if isinstance(p_.ctx, (ast.Store, ast.Del)):
                        continue
                    if isinstance(_par(p_), ast.AugAssign) and _par(p_).target is p_:
                        continue
                    return True
                if isinstance(p_, ast.Attribute) and p_.value is n:
                    if p_.attr in ("append", "update", "add", "setdefault", "pop", "clear", "extend", "copy"):
                        if p_.attr in ("setdefault", "pop"):
                            return True
                        continue
                    return True
                if isinstance(p_, ast.Call) and n in p_.args and (dotted(p_.func) or "") in ("dict", "list", "tuple", "len", "sorted") and isinstance(_par(p_), ast.Return):
                    continue
                return True
        return False

    # a module-level mutable container handed out by reference: whoever receives it can write into process-wide state
    # (`vars = expr.get_variables(); vars |= more`), and every later caller of the same function sees the additions
    for fi in prog.functions.values():
        la_ = local_assignments(fi.node)
        for r_ in walk_local(fi.node):
            if isinstance(r_, ast.Return) and isinstance(r_.value, ast.Name) and (fi.module.name, r_.value.id) in containers and r_.value.id not in la_:
                # write-only diagnostics (a counter table that nothing but this accessor reads) carry no results
                from ..astutil import parent as _par2
                used = False
                for g_ in prog.functions.values():
                    if g_.module is not fi.module or r_.value.id in local_assignments(g_.node):
                        continue
                    for x_ in walk_local(g_.node):
                        if isinstance(x_, ast.Name) and x_.id == r_.value.id and isinstance(x_.ctx, ast.Load):
                            p2 = _par2(x_)
                            if isinstance(p2, ast.Return) and p2.value is x_:
                                continue
                            if isinstance(p2, ast.Subscript) and p2.value is x_ and (isinstance(p2.ctx, (ast.Store, ast.Del)) or (isinstance(_par2(p2), ast.AugAssign) and _par2(p2).target is p2)):
                                continue
                            if isinstance(p2, ast.Attribute) and p2.value is x_ and p2.attr in ("append", "update", "add", "clear", "extend", "copy"):
                                continue
                            used = True
                if not used and writers.get((fi.module.name, r_.value.id)):
                    continue
                rep.ob("R14.1", f"{fi.qual.split(':')[1]}", False,
                       f"returns the module-level container `{r_.value.id}` itself (no copy): one mutable object is handed to every caller in the process, so an in-place edit by any of them (`|=`, `.update`, `.append`) "
                       f"shows up in the results every other model gets from {fi.name}()",
                       loc=f"{fi.module.rel}:{r_.lineno}", detail=f"handed-out:{r_.value.id}", robust=True)
    # a mutable container as a parameter DEFAULT is created once, when the def is executed: a function that writes into
    # it and has a caller leaving the argument out keeps that container across calls, i.e. across models
    from ..inline import call_sites as _cs, bind_args as _ba
    n_defaults = 0
    for fi in prog.functions.values():
        if not isinstance(fi.node, (ast.FunctionDef, ast.AsyncFunctionDef)) or fi.parent is not None:
            continue        # a nested def is re-executed (fresh default) on each call of its factory
        a_ = fi.node.args
        dflt = dict(zip([x.arg for x in (a_.posonlyargs + a_.args)][::-1], a_.defaults[::-1]))
        dflt.update({k.arg: d for k, d in zip(a_.kwonlyargs, a_.kw_defaults) if d is not None})
        for pname, d in dflt.items():
            mutable = isinstance(d, (ast.Dict, ast.List, ast.Set)) or (isinstance(d, ast.Call) and (dotted(d.func) or "").split(".")[-1] in ("dict", "list", "set", "defaultdict", "OrderedDict", "deque", "WeakValueDictionary"))
            if not mutable:
                continue
            n_defaults += 1
            if pname in local_assignments(fi.node):
                continue    # rebound before use (the `x = x or {}` family): not followed
            stores = []
            for n in walk_local(fi.node, include_self=False):
                if isinstance(n, (ast.Assign, ast.AugAssign)):
                    for t in (n.targets if isinstance(n, ast.Assign) else [n.target]):
                        if isinstance(t, ast.Subscript) and isinstance(t.value, ast.Name) and t.value.id == pname:
                            stores.append(n)
                if isinstance(n, ast.Call) and isinstance(n.func, ast.Attribute) and isinstance(n.func.value, ast.Name) and n.func.value.id == pname and n.func.attr in ("append", "update", "add", "setdefault", "extend", "insert", "appendleft"):
                    stores.append(n)
            reads = [n for n in walk_local(fi.node, include_self=False) if isinstance(n, ast.Name) and n.id == pname and isinstance(n.ctx, ast.Load)]
            if not stores or len(reads) <= len(stores):
                continue
            sites = [(c_fi, c_) for c_fi, c_ in _cs(prog, fi, "optyx")]
            omitting = []
            for c_fi, c_ in sites:
                if any(isinstance(x_, ast.Starred) for x_ in c_.args) or any(k_.arg is None for k_ in c_.keywords):
                    continue
                try:
                    if _ba(fi.node, c_).get(pname) is d:
                        omitting.append((c_fi, c_))
                except Exception:
                    pass
            if sites and not omitting:
                continue
            who = f"{omitting[0][0].name} ({omitting[0][0].module.rel}:{omitting[0][1].lineno}) calls it without `{pname}`" if omitting else "it is part of the public surface and can be called without it"
            rep.ob("R14.1", f"{fi.module.name}.{fi.name}({pname})", False,
                   f"parameter `{pname}` defaults to a mutable container ({src(d)[:30]}) that {fi.name} writes into (line {stores[0].lineno}) and reads back; {who}: the one container created at import is then shared by "
                   f"every call, so what one model left in it is handed to the next (entries keyed by id() or name outlive their model)",
                   loc=f"{fi.module.rel}:{stores[0].lineno}", detail="mutable-default", robust=True)
    rep.saw("mutable parameter defaults", n_defaults)

    for key, node in sorted(containers.items()):
        ws = writers.get(key, [])
        when = [_written_when(prog, w) for w in ws]
        import_time = all(x == "import" for x in when)
        if ws and not import_time and not any(x == "run" for x in when):
            rep.undecided(f"R14.1 {key[0]}.{key[1]}: written by {[w.qual.split(':')[1] for w, x in zip(ws, when) if x is None]}, for which neither an import-time-only use (decorator / registration) nor a caller on a run-time path was found")
            continue
        if ws and not import_time and not consulted(key):
            rep.ob("R14.1", f"{key[0]}.{key[1]}", True, f"module-level container written at run time by {[w.name for w in ws]} but never consulted by package code (counters / diagnostics)", loc=f"{prog.modules[key[0]].rel}:{node.lineno}", detail="module-container", trivial=True)
            continue
        rep.ob("R14.1", f"{key[0]}.{key[1]}", import_time or not ws,
               f"module-level container; written only at import time by {[w.name for w in ws]}" if ws else "module-level container, never written by package code",
               loc=f"{prog.modules[key[0]].rel}:{node.lineno}", detail="module-container") if (import_time or not ws) else rep.ob(
            "R14.1", f"{key[0]}.{key[1]}", False, f"module-level container is written at run time by {[w.qual for w in ws]}: state shared between independent models", loc=f"{prog.modules[key[0]].rel}:{node.lineno}", detail="module-container")

    # ------------------------------------------------------------------ R14.2 per cached function
    cg = CallGraph(prog)
    for fi in memo:
        params = [a for a in fi.node.args.args]
        expr_params = [a.arg for a in params if a.annotation is not None and any(t in ast.unparse(a.annotation) for t in ("Expression", "Variable", "Parameter"))]
        other = [a.arg for a in params if a.arg not in expr_params]
        for o in other:
            rep.ob("R14.2", f"{fi.name}({o})", True, f"key component {o} is a value (tuple / int / str)", loc=fi.loc, detail="value-component", trivial=True)
        # workers that dispatch on the node kind
        for p in expr_params:
            # the cached function itself plus the package functions it hands this very parameter to
            workers = [(fi, p, None)]
            aliases_fi = prog.func_aliases(fi)
            for c in calls(fi.node):
                tg = cg.resolve_name(fi, c.func.id) if isinstance(c.func, ast.Name) else None
                for t in tg or []:
                    for i, a in enumerate(c.args):
                        if isinstance(a, ast.Name) and a.id == p and i < len(t.node.args.args):
                            # kinds the parameter is known to have at this call site (enclosing isinstance arm)
                            from ..astutil import isinstance_parts
                            gk = None
                            for test, pol in dominating_guards(c):
                                ip = isinstance_parts(test, aliases_fi)
                                if ip and ip[0] == p and pol and not ip[2]:
                                    gk = set(ip[1])
                            workers.append((t, t.node.args.args[i].arg, gk))
            for kind, key_attrs in sorted(neq.items()):
                if not _may_be(fi, p, kind):
                    continue
                reads, escapes, where = _root_arm_effects(prog, workers, p, kind)
                nonkey = {a for a in reads if a not in key_attrs and not a.startswith("__")}
                # state read at call time through the escaped object
                state = _call_time_state(prog, kind)
                bad = bool(nonkey) or (escapes and bool(state - key_attrs))
                excluded = _callers_exclude(prog, fi, p, kind) if bad else False
                construct = f"{fi.name}({p}:{kind})"
                if not bad:
                    rep.ob("R14.2", construct, True, f"a {kind} root is used only through {sorted(reads) or 'nothing'} (key attributes {sorted(key_attrs)})" + (", and the object kept in the result carries no call-time-read state" if escapes else ""), loc=where or fi.loc, detail="congruent")
                elif excluded:
                    rep.ob("R14.2", construct, True, f"a {kind} root would not be congruent, but every call site excludes {kind} roots before consulting the cache", loc=where or fi.loc, detail="congruent")
                else:
                    rep.ob("R14.2", construct, False,
                           f"the cache key compares {kind} objects by {sorted(key_attrs)}, but the cached result for a {kind} root "
                           + (f"captures the object and reads {sorted((state | nonkey) - key_attrs)} at call time" if escapes else f"depends on {sorted(nonkey)}")
                           + f": a second {kind} with the same name but another value gets the first one's result",
                           loc=where or fi.loc, detail="congruent")
        # identity tests on a key component that the cache compares by name
        for p in expr_params:
            ann = [ast.unparse(a.annotation) for a in fi.node.args.args if a.arg == p][0]
            if not any(k in ann or "Expression" in ann for k in neq):
                continue
            for n in walk_local(fi.node):
                if isinstance(n, ast.Compare) and len(n.ops) == 1 and isinstance(n.ops[0], (ast.Is, ast.IsNot)):
                    sides = [src(n.left), src(n.comparators[0])]
                    if p in sides and not any(x in ("None",) for x in sides):
                        rep.ob("R14.2", f"{fi.name}({p})", False,
                               f"`{src(n)}` decides by object identity inside a function whose cache key compares {p} by name: the entry computed for one object is returned for every same-named object, for which the identity test would have gone the other way",
                               loc=f"{fi.module.rel}:{n.lineno}", detail=f"identity-test-on-name-key:{src(n)[:30]}")
        # ------------------------------------------------------------------ R14.3 purity
        reach = cg.reachable([fi])
        glob, unsure = [], []
        for f in reach:
            for n in walk_local(f.node):
                if isinstance(n, ast.Global):
                    glob.append((f, n))
                if isinstance(n, ast.Name) and isinstance(n.ctx, ast.Load) and (f.module.name, n.id) in containers and n.id not in local_assignments(f.node):
                    ws = writers.get((f.module.name, n.id), [])
                    when_ = [_written_when(prog, w) for w in ws]
                    if any(x == "run" for x in when_):
                        glob.append((f, n))
                    elif not all(x == "import" for x in when_):
                        unsure.append((f, n))
        if unsure and not glob:
            rep.undecided(f"R14.3 {fi.name}: {unsure[0][0].name} reads module container `{unsure[0][1].id}`, whose writers could not be placed at import time or run time")
            continue
        rep.ob("R14.3", fi.name, not glob, f"{len(reach)} functions reachable from the cached function read no run-time-mutable module state" if not glob else f"{glob[0][0].name} (reachable from the cached function) uses mutable module state at line {glob[0][1].lineno}", loc=fi.loc, detail="pure")
        # id() components are safe only if the object itself is also part of the key (kept alive by the entry)
        for c in prog.functions.values():
            for call in calls(c.node):
                if dotted(call.func) == fi.name:
                    ids = [a for a in call.args if isinstance(a, ast.Call) and dotted(a.func) == "id"]
                    for a in ids:
                        same = any(src(b) == src(a.args[0]) for b in call.args if b is not a)
                        rep.ob("R14.2", f"{fi.name}(id)", same, "the id() component is accompanied by the object itself, so the entry keeps it alive (no id reuse while cached)" if same else "the cache key contains id(obj) without the object: after garbage collection another object can reuse the id and receive the stale entry", loc=f"{c.module.rel}:{call.lineno}", detail="id-with-object")
    rep.expect_min("R14.1", 1)
    rep.expect_min("R14.2", 8)
    rep.expect_min("R14.3", 3)
    rep.explanation = (
        "Cache-key congruence for all histories and any cache capacity: the memoised functions are enumerated; for each "
        "key component of a class that compares by name, the dispatcher arm handling a root of that class is inspected: "
        "attributes read must be the ones __eq__ compares, and the object may stay in the result only if it has no "
        "call-time-read state -- unless every call site excludes such roots. Cached functions and everything reachable "
        "from them read no run-time-mutable module state. Eviction neutrality follows."
    )
    rep.assume("user code registering gradient rules at run time is outside the property")


def _written_when(prog, w, _seen=None):
    """'import' -- the writer only runs while modules are imported (a registration decorator, or a helper whose every
    caller is one); 'run' -- it, or a function that calls it (transitively, calls resolved by name), is part of the
    package's run-time surface: a public function / method, or a memoised worker; None -- neither was established."""
    from ..inline import call_sites
    seen = _seen if _seen is not None else set()
    if w.qual in seen:
        return None
    seen.add(w.qual)
    if _only_called_at_import(prog, w):
        return "import"
    # the registrar itself: a function whose nested import-time decorator is what it hands out
    if any(g.parent is w and _only_called_at_import(prog, g) for g in prog.functions.values()):
        return "import"
    decos = [dotted(d.func if isinstance(d, ast.Call) else d) or "" for d in getattr(w.node, "decorator_list", [])]
    if any(d.split(".")[-1] in ("lru_cache", "cache") for d in decos):
        return "run"
    public = not w.name.startswith("_") or (w.name.startswith("__") and w.name.endswith("__"))
    if public and w.parent is None and (w.cls is None or not w.cls.name.startswith("_")):
        return "run"
    sites = [c_fi for c_fi, _c in call_sites(prog, w, "optyx") if c_fi is not w]
    if not sites:
        return None
    verdicts = [_written_when(prog, c_fi, seen) for c_fi in sites]
    if any(v == "run" for v in verdicts):
        return "run"
    if all(v == "import" for v in verdicts):
        return "import"
    return None


def _only_called_at_import(prog, w):
    """The writer is a decorator / registration helper that is only used at module import time."""
    # register_gradient.<locals>.decorator : applied by @register_gradient(...) at definition time
    if w.parent is not None and w.name == "decorator":
        reg = w.parent
        users = []
        for f in prog.functions.values():
            for d in getattr(f.node, "decorator_list", []):
                if isinstance(d, ast.Call) and dotted(d.func) == reg.name:
                    users.append(f)
        # the functions carrying the decorator are defined inside a function called at module level
        for u in users:
            if u.parent is None:
                continue
            top = u.parent
            called_at_import = any(isinstance(n, ast.Expr) and isinstance(n.value, ast.Call) and dotted(n.value.func) == top.name for n in top.module.tree.body)
            if not called_at_import:
                return False
        # no other run-time call of the registrar inside the package
        for f in prog.functions.values():
            for c in calls(f.node):
                if dotted(c.func) == reg.name and not isinstance(getattr(c, "_parent", None), ast.FunctionDef):
                    if c not in [d for ff in prog.functions.values() for d in getattr(ff.node, "decorator_list", [])]:
                        return False
        return True
    return False


def _may_be(fi, p, kind):
    ann = [ast.unparse(a.annotation) for a in fi.node.args.args if a.arg == p][0]
    if kind in ann:
        return True
    return "Expression" in ann


def _root_arm_effects(prog, workers, p, kind):
    """Attributes of the root object read by the arm(s) handling `kind`, and whether the object escapes into the
    produced value (captured by a closure / placed in a returned tree)."""
    reads, escapes, where = set(), False, None
    for w, p, gk in workers:
        if gk is not None and not any(kind == g or prog.is_subclass(kind, g) for g in gk):
            continue  # this worker only ever receives other kinds
        try:
            d = dispatcher(prog, w, min_arms=2)
        except AnalysisError:
            # no dispatch: direct uses of the parameter
            if w.node.args.args and p in [a.arg for a in w.node.args.args]:
                for n in walk_local(w.node):
                    if isinstance(n, ast.Attribute) and isinstance(n.value, ast.Name) and n.value.id == p and isinstance(n.ctx, ast.Load):
                        reads.add(n.attr)
            continue
        a = exact_arm(d, prog, kind)
        if a is None or kind not in a.kinds:
            # wrt-style parameter (not the dispatch subject): collect attribute reads on it anywhere
            if any(x.arg == p for x in w.node.args.args) and d.subject != p:
                for n in ast.walk(w.node):
                    if isinstance(n, ast.Attribute) and isinstance(n.value, ast.Name) and n.value.id == p and isinstance(n.ctx, ast.Load):
                        reads.add(n.attr)
            continue
        subj = d.subject
        where = f"{w.module.rel}:{a.lineno}"
        aliases = {subj}
        for st in a.body:
            for n in ast.walk(st):
                if isinstance(n, ast.Assign) and isinstance(n.targets[0], ast.Name) and isinstance(n.value, ast.Name) and n.value.id in aliases:
                    aliases.add(n.targets[0].id)
        for st in a.body:
            for n in ast.walk(st):
                if isinstance(n, ast.Attribute) and isinstance(n.value, ast.Name) and isinstance(n.ctx, ast.Load):
                    if n.value.id in aliases:
                        reads.add(n.attr)
                if isinstance(n, ast.Lambda):
                    # default args binding the object; attribute reads through the bound name inside the body
                    bound = {arg.arg for arg, dv in zip(n.args.args[::-1], n.args.defaults[::-1]) if isinstance(dv, ast.Name) and dv.id in aliases}
                    free = {x.id for x in ast.walk(n.body) if isinstance(x, ast.Name)} & aliases
                    if bound or free:
                        escapes = True
                        for x in ast.walk(n.body):
                            if isinstance(x, ast.Attribute) and isinstance(x.value, ast.Name) and x.value.id in (bound | free):
                                reads.add(x.attr)
    return reads, escapes, where


def _call_time_state(prog, kind):
    """Attributes of `kind` whose value can change after construction and is read by evaluation."""
    ci = prog.cls(kind)
    ev = ci.methods.get("evaluate")
    out = set()
    if ev is not None:
        for n in walk_local(ev.node):
            if isinstance(n, ast.Attribute) and dotted(n.value) == "self":
                out.add(n.attr)
    # properties map to their backing slot
    for name, m in ci.methods.items():
        if any(ast.unparse(d) == "property" for d in m.node.decorator_list):
            backing = {n.attr for n in walk_local(m.node) if isinstance(n, ast.Attribute) and dotted(n.value) == "self"}
            if backing & out:
                out.add(name)
    # only attributes that have a writer outside __init__ are mutable state
    mutable = set()
    for name, m in ci.methods.items():
        if name == "__init__":
            continue
        for n in walk_local(m.node):
            if isinstance(n, (ast.Assign, ast.AugAssign)):
                tg = n.targets if isinstance(n, ast.Assign) else [n.target]
                for t in tg:
                    if isinstance(t, ast.Attribute) and dotted(t.value) == "self":
                        mutable.add(t.attr)
    res = {a for a in out if a in mutable}
    if res:
        # include the public property names of mutable backing slots
        for name, m in ci.methods.items():
            if any(ast.unparse(d) == "property" for d in m.node.decorator_list):
                backing = {n.attr for n in walk_local(m.node) if isinstance(n, ast.Attribute) and dotted(n.value) == "self"}
                if backing & res:
                    res.add(name)
    return res


def _callers_exclude(prog, fi, p, kind):
    """Every in-package call site of the cached function is reached only when the argument is not a `kind`."""
    idx = [a.arg for a in fi.node.args.args].index(p)
    sites = 0
    for f in prog.functions.values():
        for c in calls(f.node):
            if dotted(c.func) != fi.name or f is fi:
                continue
            sites += 1
            if idx >= len(c.args):
                return False
            arg = src(c.args[idx])
            gs = dominating_guards(c) + preceding_exit_guards(c)
            pf = And(*[(formula(t) if pol else Not(formula(t))) for t, pol in gs]) if gs else TRUE
            a = f"isinstance({arg}, {kind})"
            if a not in pf.atoms() or not implies(pf, Not(atom(a))):
                return False
    return sites > 0
