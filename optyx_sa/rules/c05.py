"""C05 -- the extracted LP is the model.

The three extractors are checked as homomorphisms of affine forms by ABSTRACT EXECUTION over a finite shape
domain: every node shape that the degree analysis accepts as linear (operands abstracted to Const = Constant node,
D0 = degree-0 non-Constant node, D1 = degree-1 node; exponents 0, 1, 2) is pushed through the extractor's code
(guards are evaluated on the abstract shape; no optyx code runs) and the symbolic result -- a rational term in
the children's coefficient A, constant B and value V -- is compared with the affine-form algebra in the exact normal
form, under the relations  degree-0 child: A = 0, B = V.

R05.1/R05.2 result of each extractor = specification for every accepted shape (a silent default is a wrong model)
R05.3 O(1) shortcuts are guarded (VectorVariable, len == n, first variable at column 0, other operand Constant)
      and return what the general walker returns
R05.4 sense handling in extract_constraints         R05.5 one variable list feeds columns, bounds and names
"""

from __future__ import annotations

import ast

from .. import algebra as al
from ..astutil import dotted, src, walk_local, local_assignments, calls, dominating_guards, op_test, conjuncts
from ..report import AnalysisError, Frag

EXTRACTORS = {
    "const": "optyx.analysis:_extract_constant_impl",
    "coef": "optyx.analysis:_extract_coefficient_impl",
    "all": "optyx.analysis:_extract_all_coefficients_impl",
}
CLASSES = ("Const", "D0", "D1")


class Shape:
    """Abstract node: kind plus abstract children."""

    def __init__(self, kind, **kw):
        self.kind = kind
        self.__dict__.update(kw)

    def label(self):
        if self.kind == "BinaryOp":
            e = f" e={self.e}" if self.op == "**" else ""
            return f"BinaryOp[{self.op}] l={self.l} r={self.r}{e}"
        if self.kind == "UnaryOp":
            return f"UnaryOp[{self.op}] operand={self.l}"
        if self.kind in ("LinearCombination", "VectorSum"):
            return f"{self.kind} over {self.vec}"
        if self.kind == "Variable":
            return f"Variable ({'the queried one' if self.same else 'another one'})"
        return self.kind


def deg(c):
    return 0 if c in ("Const", "D0") else 1


def accepted_shapes():
    out = [Shape("Constant"), Shape("Variable", same=True), Shape("Variable", same=False)]
    for op in ("+", "-"):
        for l in CLASSES:
            for r in CLASSES:
                out.append(Shape("BinaryOp", op=op, l=l, r=r, e=None))
    for l in CLASSES:
        for r in CLASSES:
            if deg(l) + deg(r) <= 1:
                out.append(Shape("BinaryOp", op="*", l=l, r=r, e=None))
    for l in CLASSES:
        out.append(Shape("BinaryOp", op="/", l=l, r="Const", e=None))
    for l in CLASSES:
        for e in (0, 1, 2):
            if e == 2 and deg(l) > 0:
                continue
            out.append(Shape("BinaryOp", op="**", l=l, r="Const", e=e))
    for l in CLASSES:
        out.append(Shape("UnaryOp", op="neg", l=l))
    out.append(Shape("LinearCombination", vec="VectorVariable"))
    out.append(Shape("LinearCombination", vec="VectorExpression"))
    out.append(Shape("VectorSum", vec="VectorVariable"))
    return out


# symbols
AL, AR, BL, BR, VL, VR, M = (al.A(x) for x in ("A_l", "A_r", "B_l", "B_r", "V_l", "V_r", "M"))
CI, AE, BE = al.A("c_i"), al.A("A_elem"), al.A("B_elem")


def spec(which, sh):
    """Affine-form algebra: (coefficient of the queried variable, constant term) of the node."""
    k = sh.kind
    if k == "Constant":
        a, b = al.C(0), al.A("V_self")
    elif k == "Variable":
        a, b = (al.C(1) if sh.same else al.C(0)), al.C(0)
    elif k == "BinaryOp":
        al_, bl_ = (al.C(0), VL) if deg(sh.l) == 0 else (AL, BL)
        ar_, br_ = (al.C(0), VR) if deg(sh.r) == 0 else (AR, BR)
        if sh.op == "+":
            a, b = al_ + ar_, bl_ + br_
        elif sh.op == "-":
            a, b = al_ - ar_, bl_ - br_
        elif sh.op == "*":
            if deg(sh.l) == 0:
                a, b = VL * ar_, VL * br_
            else:
                a, b = al_ * VR, bl_ * VR
        elif sh.op == "/":
            a, b = al_ / VR, bl_ / VR
        elif sh.op == "**":
            if sh.e == 0:
                a, b = al.C(0), al.C(1)
            elif sh.e == 1:
                a, b = al_, bl_
            else:
                a, b = al.C(0), VL.pow_int(sh.e)
    elif k == "UnaryOp":
        al_, bl_ = (al.C(0), VL) if deg(sh.l) == 0 else (AL, BL)
        a, b = -al_, -bl_
    elif k == "LinearCombination":
        if sh.vec == "VectorVariable":
            a, b = al.A("c_at_var"), al.C(0)
        else:
            a, b = CI * AE, CI * BE  # per element contribution
    elif k == "VectorSum":
        a, b = al.A("member"), al.C(0)
    return a if which != "const" else b


def apply_relations(t, sh):
    """degree-0 child: A = 0, B = V (substitute by rebuilding the term is not possible on a normal form, so the
    executor already produces A/B/V symbols according to the child's class -- see child_syms)."""
    return t


def child_syms(sh, side):
    cls = getattr(sh, "l" if side in ("left", "operand") else "r")
    if side in ("left", "operand"):
        return (al.C(0), VL, VL) if deg(cls) == 0 else (AL, BL, None)
    return (al.C(0), VR, VR) if deg(cls) == 0 else (AR, BR, None)


class NeedChoice(Exception):
    """A guard compares a symbolic value with zero: both outcomes must be explored."""

    def __init__(self, key, gen):
        self.key, self.gen = key, gen


class Exec:
    """Abstract executor of one extractor on one shape."""

    def __init__(self, which, fi, sh, choices=None):
        self.which, self.fi, self.sh = which, fi, sh
        self.choices = choices or {}
        self.subject = fi.node.args.args[0].arg
        self.env = {}
        self.contrib = al.C(0)  # for the accumulating extractor
        self.trace = []

    # ---- guards
    def test(self, t):
        s = self.subject
        sh = self.sh
        if getattr(self, "alias", None):
            from ..symexec import subst
            t = subst(t, self.alias)
        if isinstance(t, ast.BoolOp):
            vals = [self.test(v) for v in t.values]
            return all(vals) if isinstance(t.op, ast.And) else any(vals)
        if isinstance(t, ast.UnaryOp) and isinstance(t.op, ast.Not):
            return not self.test(t.operand)
        if isinstance(t, ast.Call) and dotted(t.func) == "isinstance":
            subj = src(t.args[0])
            ks = [src(e) for e in (t.args[1].elts if isinstance(t.args[1], ast.Tuple) else [t.args[1]])]
            if subj == s:
                return sh.kind in ks
            if sh.kind == "BinaryOp" and subj in (f"{s}.left", f"{s}.right"):
                cls = sh.l if subj.endswith("left") else sh.r
                if ks == ["Constant"]:
                    return cls == "Const"
            if sh.kind in ("LinearCombination", "VectorSum") and subj == f"{s}.vector":
                return sh.vec in ks
            raise AnalysisError(f"{self.fi.name}: cannot evaluate guard `{src(t)}` on shape {sh.label()}")
        p = op_test(t)
        if p and p[0] == f"{s}.op":
            r = sh.op in p[1]
            return (not r) if p[2] else r
        if isinstance(t, ast.Compare) and len(t.ops) == 1:
            l, r = src(t.left), src(t.comparators[0])
            if l in self.env and isinstance(self.env[l], int) and isinstance(t.comparators[0], ast.Constant):
                v, c = self.env[l], t.comparators[0].value
                return {ast.Eq: v == c, ast.NotEq: v != c, ast.Lt: v < c, ast.LtE: v <= c, ast.Gt: v > c, ast.GtE: v >= c}[type(t.ops[0])]
            if l == f"{s}.name" and r.endswith(".name"):
                return sh.same
            if l.endswith(".name") and r.endswith(".name") and self.sh.kind in ("LinearCombination", "VectorSum"):
                return "member"
            if sh.kind == "BinaryOp" and l in (f"{s}.left.degree", f"{s}.right.degree") and isinstance(t.comparators[0], ast.Constant):
                d = deg(sh.l if "left" in l else sh.r)
                c = t.comparators[0].value
                return {ast.Eq: d == c, ast.NotEq: d != c}[type(t.ops[0])]
            if l == "idx" and r == "None":
                return True if isinstance(t.ops[0], ast.IsNot) else False
            # <symbolic value> == 0 / != 0 : value-dependent; explore both outcomes
            if isinstance(t.comparators[0], ast.Constant) and t.comparators[0].value == 0 and isinstance(t.ops[0], (ast.Eq, ast.NotEq)):
                try:
                    v = self.val(t.left)
                except AnalysisError:
                    v = None
                if v is not None:
                    if v.is_zero():
                        return isinstance(t.ops[0], ast.Eq)
                    gen = v.single_generator()
                    if gen is not None:
                        key = src(t.left)
                        if key not in self.choices:
                            raise NeedChoice(key, gen)
                        is_zero = self.choices[key]
                        return is_zero if isinstance(t.ops[0], ast.Eq) else not is_zero
        raise AnalysisError(f"{self.fi.name}: cannot evaluate guard `{src(t)}` on shape {sh.label()}")

    # ---- values
    def val(self, n):
        s = self.subject
        sh = self.sh
        if isinstance(n, ast.Constant) and isinstance(n.value, (int, float)):
            return al.C(str(n.value)) if isinstance(n.value, float) else al.C(n.value)
        if isinstance(n, ast.Name):
            if n.id == "multiplier":
                return M
            if n.id in self.env:
                v = self.env[n.id]
                return al.C(v) if isinstance(v, int) else v
            raise AnalysisError(f"{self.fi.name}: unbound name {n.id}")
        if isinstance(n, ast.UnaryOp) and isinstance(n.op, ast.USub):
            return -self.val(n.operand)
        if isinstance(n, ast.IfExp):
            r = self.test(n.test)
            return self.val(n.body if r else n.orelse)
        if isinstance(n, ast.BinOp):
            if isinstance(n.op, ast.Pow):
                base = self.val(n.left)
                e = self.env.get(src(n.right)) if isinstance(n.right, ast.Name) else (n.right.value if isinstance(n.right, ast.Constant) else None)
                if not isinstance(e, int):
                    raise AnalysisError(f"{self.fi.name}: symbolic exponent in `{src(n)}`")
                return base.pow_int(e)
            l, r = self.val(n.left), self.val(n.right)
            return {ast.Add: lambda: l + r, ast.Sub: lambda: l - r, ast.Mult: lambda: l * r, ast.Div: lambda: l / r}[type(n.op)]()
        if isinstance(n, ast.Call):
            f = dotted(n.func)
            if f in ("float", "int") and n.args:
                return self.val(n.args[0])
            if f in ("_extract_constant_impl", "extract_constant_term") and n.args:
                if not src(n.args[0]).startswith(s + "."):
                    return BE
                side = src(n.args[0])[len(s) + 1:]
                return child_syms(sh, side)[1]
            if f in ("_extract_coefficient_impl", "extract_linear_coefficient") and n.args:
                if not src(n.args[0]).startswith(s + "."):
                    return AE
                side = src(n.args[0])[len(s) + 1:]
                return child_syms(sh, side)[0]
        if isinstance(n, ast.Attribute):
            t = src(n)
            if t == f"{s}.value" and sh.kind == "Constant":
                return al.A("V_self")
            if sh.kind == "BinaryOp" and t in (f"{s}.left.value", f"{s}.right.value"):
                side = "left" if ".left." in t else "right"
                cls = sh.l if side == "left" else sh.r
                if cls != "Const":
                    raise AnalysisError(f"{self.fi.name}: reads {t} on a non-Constant operand in shape {sh.label()} (would raise at run time)")
                return VL if side == "left" else VR
        if isinstance(n, ast.Subscript) and src(n.value) == f"{s}.coefficients":
            return CI
        raise AnalysisError(f"{self.fi.name}: value `{src(n)[:50]}` not interpretable on shape {sh.label()}")

    # ---- statements
    def run(self, stmts):
        """-> ('return', term|None) or ('fall', None)"""
        s = self.subject
        from ..symexec import subst
        for st in stmts:
            if isinstance(st, (ast.ImportFrom, ast.Import)) or (isinstance(st, ast.Expr) and isinstance(st.value, ast.Constant)):
                continue
            if getattr(self, "alias", None) and not isinstance(st, (ast.If, ast.For)):
                ln = st.lineno
                st = subst(st, self.alias)       # locals that merely name a child node (`scaled = expr.right`)
                st.lineno = ln
            if isinstance(st, ast.Assign) and isinstance(st.targets[0], ast.Tuple) and isinstance(st.value, ast.Tuple) and len(st.targets[0].elts) == len(st.value.elts) and all(isinstance(t, ast.Name) for t in st.targets[0].elts):
                # a, b = x, y  ==  simultaneous single assignments (right-hand sides read the old bindings)
                pairs = list(zip(st.targets[0].elts, st.value.elts))
                vals = []
                for t_, v_ in pairs:
                    if isinstance(v_, ast.Attribute) and src(v_) in (f"{s}.left", f"{s}.right", f"{s}.operand"):
                        vals.append(("alias", v_))
                    else:
                        vals.append(("val", self.val(v_)))
                for (t_, _v), (k_, x_) in zip(pairs, vals):
                    if k_ == "alias":
                        self.alias = {**getattr(self, "alias", {}), t_.id: x_}
                    else:
                        self.env[t_.id] = x_
                continue
            if isinstance(st, ast.Assign) and isinstance(st.targets[0], ast.Name) and isinstance(st.value, ast.Attribute) and src(st.value) in (f"{s}.left", f"{s}.right", f"{s}.operand"):
                self.alias = {**getattr(self, "alias", {}), st.targets[0].id: st.value}
                continue
            if isinstance(st, ast.If):
                r = self.test(st.test)
                if r == "member":
                    # loop over vector members: treat the member case
                    r = True
                self.trace.append((st.lineno, src(st.test)[:50], bool(r)))
                out = self.run(st.body if r else st.orelse)
                if out[0] == "return":
                    return out
                continue
            if isinstance(st, ast.Return):
                self.trace.append((st.lineno, "return " + (src(st.value)[:40] if st.value is not None else ""), None))
                return "return", (self.val(st.value) if st.value is not None else None), st
            if isinstance(st, ast.Assign) and isinstance(st.targets[0], ast.Name):
                nm = st.targets[0].id
                v = st.value
                if self.sh.kind == "BinaryOp" and src(v) in (f"int({s}.right.value)", f"{s}.right.value", f"float({s}.right.value)") and self.sh.op == "**":
                    self.env[nm] = self.sh.e
                elif nm == "idx":
                    self.env[nm] = al.A("idx")
                elif isinstance(v, ast.Constant) and isinstance(v.value, (int, float)):
                    self.env[nm] = al.C(str(v.value)) if isinstance(v.value, float) else al.C(v.value)
                else:
                    self.env[nm] = self.val(v)
                continue
            if isinstance(st, ast.AugAssign):
                tgt = src(st.target)
                if tgt.startswith("result["):
                    # result[idx] += multiplier-term : coefficient contribution of this node itself
                    self.contrib = self.contrib + self.val(st.value)
                    self.trace.append((st.lineno, src(st)[:50], None))
                    continue
                if isinstance(st.target, ast.Name):
                    cur = self.env.get(st.target.id, al.C(0))
                    self.env[st.target.id] = cur + self.val(st.value)
                    continue
            if isinstance(st, ast.Expr) and isinstance(st.value, ast.Call):
                c = st.value
                f = dotted(c.func)
                if f == self.fi.name and len(c.args) >= 4:
                    child = src(c.args[0])
                    mult = self.val(c.args[3])
                    if child.startswith(s + "."):
                        side = child[len(s) + 1:]
                        self.contrib = self.contrib + mult * child_syms(self.sh, side)[0]
                    elif self.sh.kind == "LinearCombination":
                        self.contrib = self.contrib + mult * AE
                    self.trace.append((st.lineno, src(c)[:60], None))
                    continue
            if isinstance(st, ast.For):
                # loops over vector members / elements: execute the body once as the generic element
                it = src(st.iter)
                if self.sh.kind in ("LinearCombination", "VectorSum"):
                    names = [n.id for n in ast.walk(st.target) if isinstance(n, ast.Name)]
                    out = self.run(st.body)
                    if out[0] == "return":
                        return out
                    continue
            raise AnalysisError(f"{self.fi.name}: statement `{src(st)[:60]}` not interpretable on shape {self.sh.label()}")
        return "fall", None, None


def run_extractor(prog, which, sh, choices=None):
    """-> list of (result term, executor, outcome, zeroed generators) -- one entry per explored value branch."""
    fi = prog.func(EXTRACTORS[which])
    ex = Exec(which, fi, sh, choices)
    try:
        out = ex.run(fi.node.body)
    except NeedChoice as nc:
        res = []
        for z in (True, False):
            ch = dict(choices or {})
            ch[nc.key] = z
            for r in run_extractor(prog, which, sh, ch):
                res.append((r[0], r[1], r[2], r[3] + ([nc.gen] if z else [])))
        return res
    if which == "all":
        return [(ex.contrib, ex, out, [])]
    if out[0] == "fall" or out[1] is None:
        return [(al.C(0), ex, ("fall", None, None), [])]
    return [(out[1], ex, out, [])]


def check(prog, rep):
    from . import pitfalls as _pit
    rep.section(_pit.report, prog, rep, 'R05.P', ['src/optyx/analysis.py'], ('P1', 'P2', 'P3'))
    al.selfcheck()
    shapes = accepted_shapes()
    rep.saw("abstract shapes accepted as linear", [s.label() for s in shapes])
    for which in ("const", "coef", "all"):
        fi = prog.func(EXTRACTORS[which])
        for sh in shapes:
            if which == "all" and sh.kind == "Variable" and not sh.same:
                continue  # the accumulating extractor has no queried variable: every variable gets its own column
            want = spec(which, sh)
            if which == "all":
                want = M * want
            try:
                branches = run_extractor(prog, which, sh)
            except AnalysisError as e:
                rep.undecided(f"{fi.name} on {sh.label()}: {e}")
                continue
            # the worst branch decides (a value-dependent guard makes every outcome reachable)
            verdicts = []
            for got, ex, out, zeroed in branches:
                w = want
                g = got
                for gen in zeroed:
                    g = g.zero_out(gen) if g is not None else None
                    w = w.zero_out(gen) if w is not None else None
                if g is None or w is None:
                    continue
                if sh.kind in ("LinearCombination", "VectorSum"):
                    okb, gs, ws = _vector_case(which, sh, g, ex)
                else:
                    okb = g.eq(w)
                    gs, ws = g.key(), w.key()
                verdicts.append((okb, gs, ws, ex, out, zeroed))
            if not verdicts:
                rep.undecided(f"{fi.name} on {sh.label()}: no branch could be compared")
                continue
            bad = [v for v in verdicts if not v[0]]
            ok, got_s, want_s, ex, out, zeroed = (bad[0] if bad else verdicts[0])
            if zeroed and not ok:
                got_s += f" (when {', '.join(zeroed)} = 0)"
            where = ex.trace[-1][0] if ex.trace else fi.node.lineno
            silent = out[0] == "fall" or (out[1] is not None and out[1].is_zero() and not want.is_zero())
            rep.ob("R05.1" if silent and not ok else "R05.2", fi.name, ok,
                   f"{sh.label()}: {'coefficient' if which != 'const' else 'constant'} = {want_s[:60]}" if ok else
                   f"shape {sh.label()} is accepted as linear by the degree analysis, but {fi.name} yields {got_s[:60]} instead of {want_s[:60]}"
                   + (" (silent default): the extracted LP is a different model" if silent else ""),
                   loc=f"{fi.module.rel}:{where}", detail=sh.label())
    rep.section(_shortcuts, prog, rep)
    rep.section(_senses, prog, rep)
    rep.section(_alignment, prog, rep)
    rep.expect_min("R05.", 130)
    rep.expect_min("R05.3", 6)
    rep.expect_min("R05.4", 5)
    rep.expect_min("R05.5", 4)
    rep.explanation = (
        "Acceptor-versus-handler cross-check by abstract execution over a finite shape domain (operand classes "
        "Const / degree-0 non-Constant / degree-1, exponents 0/1/2, vector operand kinds): for every shape the degree "
        "analysis accepts as linear, the code of each of the three extractors is interpreted on the abstract shape "
        "(guards decided from the shape, results as exact rational terms in the children's coefficient/constant/value "
        "symbols) and compared with the affine-form algebra. No optyx code runs. Shortcut guards, sense handling and "
        "column/bounds/name alignment are shape rules. Numeric coefficient values are not decided."
    )
    rep.assume("views of a VectorVariable list their variables in monotone natural order or start with their largest element (sufficiency of the O(1) shortcut guards)")


def _vector_case(which, sh, got, ex):
    if sh.kind == "VectorSum":
        if which == "const":
            return got.eq(al.C(0)), got.key(), "0"
        if which == "coef":
            return got.eq(al.C(1)), got.key(), "1 for members"
        return got.eq(M), got.key(), "M per member"
    if sh.vec == "VectorVariable":
        if which == "const":
            return got.eq(al.C(0)), got.key(), "0"
        if which == "coef":
            return got.eq(CI), got.key(), "c_i at the variable's position"
        return got.eq(CI * M), got.key(), "c_i * M at the variable's position"
    # VectorExpression operand: per-element contributions
    if which == "const":
        return got.eq(CI * BE) or got.eq(CI * al.A("B_l")), got.key(), "sum_i c_i * constant(elem_i)"
    if which == "coef":
        return got.eq(CI * AE) or got.eq(CI * AL), got.key(), "sum_i c_i * coefficient(elem_i)"
    return got.eq(CI * M * AE), got.key(), "recursion into every element with multiplier c_i * M"


# ---------------------------------------------------------------------------------------------- R05.3
def _shortcuts(prog, rep):
    """R05.3: the O(1) shortcuts of the coefficient extractor are sound only if the node's VectorVariable covers all n
    columns and starts at column 0 (then column order = element order) and the other operand contributes nothing.
    Decided by walking the two functions symbolically under every (node configuration, covers?, first-at-0?, other
    operand constant?) scenario: a shortcut value (np.ones / np.full / coefficients copy) may be returned only in the
    all-true scenario, and there it must be the value the general walker computes.  Locals, helper predicates and
    the shape of the guard ladder are free."""
    from ..symexec import SymWalker

    top = prog.func("optyx.analysis:extract_all_linear_coefficients")
    fb = prog.func("optyx.analysis:_try_extract_fast_binop")
    V, E, C, X = "VectorVariable", "VectorSum", "Constant", "Variable"
    configs = [
        ("VectorSum@top", top, {"expr": E, "expr.vector": V}, None, "expr.vector", None, "ones"),
        ("LinearCombination@top", top, {"expr": "LinearCombination", "expr.vector": V}, None, "expr.vector", None, "coeffs:expr"),
        ("VectorSum@addsub", fb, {"expr": "BinaryOp", "expr.left": E, "expr.left.vector": V}, "+", "expr.left.vector", "expr.right", "ones"),
        ("LinearCombination@addsub", fb, {"expr": "BinaryOp", "expr.left": "LinearCombination", "expr.left.vector": V}, "+", "expr.left.vector", "expr.right", "coeffs:expr.left"),
        ("VectorSum*c@mul-left", fb, {"expr": "BinaryOp", "expr.right": E, "expr.right.vector": V}, "*", "expr.right.vector", "expr.left", "full:expr.left"),
        ("VectorSum*c@mul-right", fb, {"expr": "BinaryOp", "expr.left": E, "expr.left.vector": V}, "*", "expr.left.vector", "expr.right", "full:expr.right"),
    ]

    def is_shortcut(v):
        if not isinstance(v, ast.Call):
            return False
        f = dotted(v.func) or src(v.func)
        return f in ("np.ones", "np.full") or f.endswith(".copy") or (f in ("np.asarray", "np.array") and "coefficients" in src(v))

    n_short = 0
    for key, fi, cfg0, op, vecpath, otherpath, form in configs:
        results = {}
        for covers in (True, False):
            for first0 in (True, False):
                for other_const in ((True, False) if otherpath else (True,)):
                    cfg = dict(cfg0)
                    if otherpath:
                        cfg[otherpath] = C if other_const else X

                    def facts(t, cfg=cfg, covers=covers, first0=first0):
                        if isinstance(t, ast.Call) and dotted(t.func) == "isinstance" and len(t.args) == 2:
                            what = src(t.args[0])
                            kinds = [src(e) for e in (t.args[1].elts if isinstance(t.args[1], ast.Tuple) else [t.args[1]])]
                            if what in cfg:
                                k = cfg[what]
                                return any(k == k2 or (k in prog.classes and k2 in prog.classes and prog.is_subclass(k, k2)) for k2 in kinds)
                            # a path not fixed by the configuration (e.g. the other side of a product): not that kind
                            if what.startswith("expr"):
                                return False
                            return None
                        if isinstance(t, ast.Call) and dotted(t.func) == "hasattr" and len(t.args) == 2 and src(t.args[0]) in cfg:
                            return None
                        if isinstance(t, ast.Compare) and len(t.ops) == 1:
                            l, r, o = src(t.left).replace(" ", ""), src(t.comparators[0]).replace(" ", ""), t.ops[0]
                            if l == "expr.op" or r == "expr.op":
                                other = t.comparators[0] if l == "expr.op" else t.left
                                if isinstance(o, (ast.In, ast.NotIn)) and isinstance(other, (ast.Tuple, ast.List, ast.Set)):
                                    hit = op in [e.value for e in other.elts if isinstance(e, ast.Constant)]
                                    return hit if isinstance(o, ast.In) else (not hit)
                                if isinstance(other, ast.Constant) and isinstance(o, (ast.Eq, ast.NotEq)):
                                    hit = other.value == op
                                    return hit if isinstance(o, ast.Eq) else (not hit)
                            sides = {l, r}
                            lens = {f"len({vecpath}._variables)", f"{vecpath}.size", f"len({vecpath})"}
                            if "n" in sides and (sides & lens) and isinstance(o, (ast.Eq, ast.NotEq)):
                                return covers if isinstance(o, ast.Eq) else (not covers)
                            firsts = {f"var_index.get({vecpath}._variables[0].name,-1)", f"var_index[{vecpath}._variables[0].name]", f"var_index.get({vecpath}._variables[0].name)"}
                            if "0" in sides and (sides & firsts) and isinstance(o, (ast.Eq, ast.NotEq)):
                                return first0 if isinstance(o, ast.Eq) else (not first0)
                            if (sides & firsts) and first0 and isinstance(t.comparators[0], ast.Constant) and isinstance(t.comparators[0].value, (int, float)) and l in firsts:
                                c_ = t.comparators[0].value     # the index IS 0 in this scenario
                                return {ast.Lt: 0 < c_, ast.LtE: 0 <= c_, ast.Gt: 0 > c_, ast.GtE: 0 >= c_}.get(type(o))
                        return None

                    w = SymWalker(prog, fi.module, facts, lambda st, env: None, non_none=())
                    try:
                        vals = w.returns(fi, {})
                    except Exception as e:
                        results = None
                        rep.undecided(f"{fi.name}:{key}: symbolic walk failed ({type(e).__name__}: {e})")
                        break
                    hits = [(v, a) for v, a in zip(vals, w.last_assumed) if is_shortcut(v)]
                    results[(covers, first0, other_const)] = hits
                if results is None:
                    break
            if results is None:
                break
        if results is None:
            continue
        loc = fi.loc
        pos = results.get((True, True, True), [])
        if not pos:
            continue            # this configuration has no shortcut (none is required)
        n_short += 1
        names = {0: "covers all n columns", 1: "first variable sits at column 0", 2: "the other operand is a Constant (contributes no coefficients)" if "mul" not in key else "the scalar factor is a Constant node"}
        missing, unsure = [], []
        for scen, hits in results.items():
            if scen == (True, True, True) or not hits:
                continue
            # an assumed test on the very quantity the requirement is about (e.g. `first index >= 0` instead of
            # `== 0`) is understood: it is simply too weak.  Only tests on something else are uninterpretable.
            quantities = [f"len({vecpath}._variables)", f"{vecpath}.size", f"len({vecpath})", f"var_index.get({vecpath}._variables[0].name,-1)", f"var_index[{vecpath}._variables[0].name]", f"var_index.get({vecpath}._variables[0].name)"]
            relevant = [a for _v, assumed in hits for a in assumed if any(tok in a for tok in ("var_index", "len(", "_variables", ".size")) and not any(qt in a.replace(" ", "") for qt in quantities)]
            which = [names[i] for i, ok_ in enumerate(scen) if not ok_]
            if len(which) == 1:
                (unsure if relevant else missing).append(which[0])
        missing = sorted(set(missing))
        unsure = sorted(set(unsure) - set(missing))
        v = pos[0][0]
        text = src(v).replace(" ", "")
        if form == "ones":
            form_ok = text.startswith("np.ones(n")
        elif form.startswith("coeffs:"):
            form_ok = f"{form.split(':')[1]}.coefficients" in text and "np.ones" not in text
        else:
            form_ok = text.startswith("np.full(n,") and f"{form.split(':')[1]}.value" in text
        if not missing and unsure:
            rep.undecided(f"{fi.name}:{key}: the shortcut is guarded by a test this rule cannot interpret ({unsure}); not decided")
            continue
        rep.ob("R05.3", f"{fi.name}:{key}", not missing and form_ok,
               "O(1) shortcut is returned only when the vector covers all n columns starting at column 0" + (" and the other operand is a Constant" if otherpath else "") if not missing and form_ok else
               (f"O(1) shortcut is taken without requiring: {', '.join(missing)}" if missing else f"shortcut returns {src(v)[:60]}, not what the general walker returns here"),
               loc=loc, detail="guards", extra={"scenarios": len(results)})
    rep.saw("shortcut configurations with an O(1) path", n_short)


def _opkey(text):
    if "expr.op ==" in text:
        return "mul-" + ("left" if "expr.left, Constant" in text else "right")
    if "expr.op in" in text:
        return "addsub"
    return "top"


# ---------------------------------------------------------------------------------------------- R05.4 / R05.5
def _index_map_over(prog, fi, expr, seq_name, depth=0):
    """Is ``expr`` (in function fi) the name -> position map {v.name: i for i, v in enumerate(<seq_name>)}, written
    in place, held in a local, or produced by a helper whose single return is such a map over its own parameter?"""
    assigns = local_assignments(fi.node)
    if isinstance(expr, ast.Name) and depth < 3:
        vals = [v for v in assigns.get(expr.id, []) if isinstance(v, ast.AST)]
        return bool(vals) and all(_index_map_over(prog, fi, v, seq_name, depth + 1) for v in vals)
    if isinstance(expr, ast.DictComp) and len(expr.generators) == 1:
        g = expr.generators[0]
        if isinstance(g.iter, ast.Call) and dotted(g.iter.func) == "enumerate" and g.iter.args and src(g.iter.args[0]) == seq_name and isinstance(g.target, ast.Tuple) and len(g.target.elts) == 2 and not g.ifs:
            i, v = [src(e) for e in g.target.elts]
            return src(expr.key) == f"{v}.name" and src(expr.value) == i
        return False
    if isinstance(expr, ast.Call) and len(expr.args) == 1 and not expr.keywords and src(expr.args[0]) == seq_name and depth < 3:
        h = None
        if isinstance(expr.func, ast.Attribute) and isinstance(expr.func.value, ast.Name) and expr.func.value.id in ("self", "cls") and fi.cls is not None:
            h = prog.lookup_method(fi.cls.name, expr.func.attr)
        elif isinstance(expr.func, ast.Name):
            h = prog.functions.get(f"{fi.module.name}:{expr.func.id}")
        if h is not None:
            ps = [a.arg for a in h.node.args.args if a.arg not in ("self", "cls")]
            rets = [r.value for r in walk_local(h.node) if isinstance(r, ast.Return)]
            return len(ps) == 1 and len(rets) == 1 and rets[0] is not None and _index_map_over(prog, h, rets[0], ps[0], depth + 1)
    return False


def _senses(prog, rep):
    """R05.4: each constraint  expr (sense) 0  with  expr = a.x + k  enters the LP as
        ==  ->  (a, -k) in the equality block,   <=  ->  (a, -k) in the <= block,   >=  ->  (-a, k) in the <= block,
    and the four returned matrices are built from their own lists in the order (A_ub, b_ub, A_eq, b_eq).  The loop
    body is walked once per sense with locals substituted, so rebinding (`row, rhs = -row, -rhs`), early
    `continue`s and the order of the arms do not matter."""
    from ..scenario import Explorer
    from ..symexec import subst

    ec = prog.cls("LinearProgramExtractor").methods.get("extract_constraints")
    if ec is None:
        raise AnalysisError("extract_constraints not found")
    loops = [n for n in walk_local(ec.node) if isinstance(n, ast.For) and src(n.iter).endswith(".constraints") and isinstance(n.target, ast.Name)]
    if len(loops) != 1:
        rep.undecided("extract_constraints: loop over the problem's constraints not found")
        return
    loop = loops[0]
    cvar = loop.target.id
    vparam = [a.arg for a in ec.node.args.args][-1]

    def core(e):
        """(parity of unary minus, innermost expression)"""
        k = 0
        while True:
            if isinstance(e, ast.UnaryOp) and isinstance(e.op, ast.USub):
                k += 1
                e = e.operand
            elif isinstance(e, ast.Call) and dotted(e.func) == "float" and len(e.args) == 1:
                e = e.args[0]
            else:
                return k % 2, e

    table = {}
    for sense in ("==", "<=", ">="):
        def atom_truth(t, state, sense=sense):
            t2 = subst(t, state["env"])
            ot = op_test(t2)
            if ot and ot[0] == f"{cvar}.sense":
                hit = sense in ot[1]
                return (not hit) if ot[2] else hit
            if isinstance(t2, ast.Call) and (dotted(t2.func) or "").endswith("is_linear"):
                return True
            return None

        def on_stmt(st, state):
            env = state["env"]
            if isinstance(st, ast.Assign) and len(st.targets) == 1:
                tg = st.targets[0]
                if isinstance(tg, ast.Name):
                    env[tg.id] = subst(st.value, env)
                elif isinstance(tg, ast.Tuple) and isinstance(st.value, ast.Tuple) and len(tg.elts) == len(st.value.elts):
                    vals = [subst(v, env) for v in st.value.elts]
                    for t_, v_ in zip(tg.elts, vals):
                        if isinstance(t_, ast.Name):
                            env[t_.id] = v_
            elif isinstance(st, ast.AugAssign) and isinstance(st.target, ast.Name) and isinstance(st.op, ast.Mult) and isinstance(st.value, ast.UnaryOp) and isinstance(st.value.op, ast.USub) and isinstance(st.value.operand, ast.Constant) and st.value.operand.value == 1:
                env[st.target.id] = ast.UnaryOp(op=ast.USub(), operand=env.get(st.target.id, ast.Name(id=st.target.id, ctx=ast.Load())))
            elif isinstance(st, ast.Expr) and isinstance(st.value, ast.Call) and isinstance(st.value.func, ast.Attribute) and st.value.func.attr == "append" and isinstance(st.value.func.value, ast.Name) and st.value.args:
                state["events"].append((st.value.func.value.id, subst(st.value.args[0], env)))

        paths = Explorer(atom_truth, on_stmt).explore(loop.body, {"env": {}, "events": []})
        evs = {tuple((l, src(v)) for l, v in st_["events"]) for st_, term in paths if term != "raise"}
        if len(evs) != 1:
            rep.undecided(f"extract_constraints[{sense}]: the appends depend on tests this rule cannot interpret ({len(evs)} variants)")
            table = None
            break
        table[sense] = [(l, v) for st_, term in paths if term != "raise" for l, v in st_["events"]][: len(next(iter(evs)))]
    if table is None:
        return
    # classify appended values
    cls = {}
    for sense, events in table.items():
        rowev = [(l, core(v)) for l, v in events if isinstance(core(v)[1], ast.Call) and (dotted(core(v)[1].func) or "").endswith("extract_all_linear_coefficients")]
        conev = [(l, core(v)) for l, v in events if isinstance(core(v)[1], ast.Call) and (dotted(core(v)[1].func) or "").endswith("extract_constant_term")]
        other = [(l, src(v)) for l, v in events if (l, core(v)) not in rowev and (l, core(v)) not in conev]
        cls[sense] = (rowev, conev, other)
    missing = sorted(s_ for s_, (r, c, o) in cls.items() if not r and not c)
    if len(missing) == len(cls):
        rep.undecided("extract_constraints: no sense is seen to file a (row, rhs) pair -- the routing is written in a form this rule cannot read")
        return
    rep.ob("R05.4", "extract_constraints", not missing, "all three senses are handled" if not missing else f"sense(s) {missing} fall through silently: those constraints vanish from the LP", loc=ec.loc, detail="all-senses")
    # the returned blocks
    rets = [r.value for r in walk_local(ec.node) if isinstance(r, ast.Return) and r.value is not None]
    lists = sorted({l for evs_ in table.values() for l, _v in evs_} | {nm for nm, vs in local_assignments(ec.node).items() if any(isinstance(v, ast.List) and not v.elts for v in vs)})
    blocks = None
    if len(rets) == 1 and isinstance(rets[0], ast.Tuple) and len(rets[0].elts) == 4:
        assigns = local_assignments(ec.node)

        def refs(e, depth=0):
            out = set()
            for n in ast.walk(e):
                if isinstance(n, ast.Name):
                    if n.id in lists:
                        out.add(n.id)
                    elif depth < 3:
                        for v in assigns.get(n.id, []):
                            if isinstance(v, ast.AST):
                                out |= refs(v, depth + 1)
            return out

        blocks = [refs(e) for e in rets[0].elts]
    if blocks is None or any(len(b_) != 1 for b_ in blocks) or len({next(iter(b_)) for b_ in blocks}) != 4:
        if blocks is None:
            rep.undecided("extract_constraints: the returned 4-tuple of blocks not found")
            return
        if any(len(b_) == 0 for b_ in blocks):
            rep.undecided(f"extract_constraints: which list each returned block is built from is not readable ({[sorted(b_) for b_ in blocks]})")
            return
        rep.ob("R05.4", "extract_constraints", False, f"the four returned blocks are built from {[sorted(b_) for b_ in blocks]}: not one list each", loc=ec.loc, detail="assembly")
        return
    A_ub, b_ub, A_eq, b_eq = [next(iter(b_)) for b_ in blocks]
    rep.ob("R05.4", "extract_constraints", True, f"the returned blocks (A_ub, b_ub, A_eq, b_eq) are built from ({A_ub}, {b_ub}, {A_eq}, {b_eq}), one list each", loc=ec.loc, detail="assembly")
    want = {"==": (A_eq, b_eq, 0, 1), "<=": (A_ub, b_ub, 0, 1), ">=": (A_ub, b_ub, 1, 0)}
    for sense in ("==", "<=", ">="):
        rowev, conev, other = cls[sense]
        if not rowev and not conev:
            continue
        LA, Lb, prow, pcon = want[sense]
        ok = len(rowev) == 1 and len(conev) == 1 and not other and rowev[0][0] == LA and conev[0][0] == Lb and rowev[0][1][0] == prow and conev[0][1][0] == pcon
        got = f"row {'-' if rowev and rowev[0][1][0] else '+'}a -> {rowev[0][0] if rowev else '?'}, rhs {'+' if conev and conev[0][1][0] == 0 else '-'}k -> {conev[0][0] if conev else '?'}"
        rep.ob("R05.4", "extract_constraints", ok,
               f"{sense}: ({'-' if prow else ''}a, {'' if pcon == 0 else '-'}k) appended to ({LA}, {Lb})" if ok else
               f"sense {sense!r}: {got}; expected row {'-' if prow else '+'}a -> {LA}, rhs {'+' if pcon == 0 else '-'}k -> {Lb}: the row enters the LP with the wrong sign or in the wrong block",
               loc=f"{ec.module.rel}:{loop.lineno}", detail=f"sense:{sense}")
        # the row is extracted from the constraint's own expression with the column map of the list passed in
        if rowev:
            call = rowev[0][1][1]
            a0 = src(call.args[0]) if call.args else "?"
            okr = a0 == f"{cvar}.expr"
            rep.ob("R05.4", "extract_constraints", okr, "row = coefficients of the constraint's own expression" if okr else f"the row is extracted from `{a0}`, not from {cvar}.expr", loc=f"{ec.module.rel}:{loop.lineno}", detail=f"row:{sense}")
        if conev:
            call = conev[0][1][1]
            a0 = src(call.args[0]) if call.args else "?"
            okr = a0 == f"{cvar}.expr"
            rep.ob("R05.4", "extract_constraints", okr, "rhs = constant term of the constraint's own expression" if okr else f"the right-hand side is taken from `{a0}`, not from {cvar}.expr", loc=f"{ec.module.rel}:{loop.lineno}", detail=f"rhs:{sense}")


def _alignment(prog, rep):
    L = prog.cls("LinearProgramExtractor")
    eo = L.methods.get("extract_objective")
    # columns of the cost vector = positions in problem.variables, and the same list is returned
    a = local_assignments(eo.node)
    vnames = [nm for nm, vals in a.items() if any(isinstance(v, ast.AST) and src(v).endswith(".variables") for v in vals)]
    ok = False
    if len(vnames) == 1:
        vn = vnames[0]
        cc = [c for c in calls(eo.node) if (dotted(c.func) or "").endswith("extract_all_linear_coefficients") and len(c.args) >= 2]
        rets = [r.value for r in walk_local(eo.node) if isinstance(r, ast.Return) and isinstance(r.value, ast.Tuple)]
        ok = bool(cc) and all(src(c.args[0]).endswith(".objective") and _index_map_over(prog, eo, c.args[1], vn) for c in cc) and bool(rets) and all(src(r.elts[-1]) == vn for r in rets)
    rep.ob("R05.5", "extract_objective", ok, "columns = positions in problem.variables; the same list is returned" if ok else "the cost vector's column map is not {v.name: i} over problem.variables, or another list is returned", loc=eo.loc, detail="columns", robust=False) if (ok or len(vnames) == 1) else rep.undecided("extract_objective: the local holding problem.variables not found")
    ec = L.methods.get("extract_constraints")
    vparam = [x.arg for x in ec.node.args.args][-1]
    cc = [c for c in calls(ec.node) if (dotted(c.func) or "").endswith("extract_all_linear_coefficients") and len(c.args) >= 3]
    na = local_assignments(ec.node)
    if not cc:
        rep.undecided("extract_constraints: no call of extract_all_linear_coefficients found")
    else:
        okm = all(_index_map_over(prog, ec, c.args[1], vparam) for c in cc)
        okn = all(src(c.args[2]) == f"len({vparam})" or (isinstance(c.args[2], ast.Name) and [src(v) for v in na.get(c.args[2].id, []) if isinstance(v, ast.AST)] == [f"len({vparam})"]) for c in cc)
        rep.ob("R05.5", "extract_constraints", okm and okn, "rows use the column map (and the length) of the list passed in" if okm and okn else "constraint rows are not built over the variable list passed in", loc=ec.loc, detail="columns", robust=False)
    eb = L.methods.get("extract_bounds")
    bparam = [x.arg for x in eb.node.args.args][-1]
    # bounds[i] = (lb, ub) of variables[i]: a loop / comprehension over the parameter appending a pair per variable
    from .common import bound_expr_problem
    pairs = []
    for n in walk_local(eb.node):
        if isinstance(n, ast.ListComp) and len(n.generators) == 1 and src(n.generators[0].iter) == bparam and isinstance(n.elt, ast.Tuple) and len(n.elt.elts) == 2 and not n.generators[0].ifs:
            pairs.append((src(n.generators[0].target), n.elt.elts[0], n.elt.elts[1], {}, n))
        if isinstance(n, ast.For) and src(n.iter) == bparam and isinstance(n.target, ast.Name):
            env = {st.targets[0].id: st.value for st in n.body if isinstance(st, ast.Assign) and isinstance(st.targets[0], ast.Name)}
            for c in ast.walk(n):
                if isinstance(c, ast.Call) and isinstance(c.func, ast.Attribute) and c.func.attr == "append" and c.args and isinstance(c.args[0], ast.Tuple) and len(c.args[0].elts) == 2:
                    pairs.append((n.target.id, c.args[0].elts[0], c.args[0].elts[1], env, n))
    if not pairs:
        rep.undecided("extract_bounds: no (lb, ub) pair per variable found")
    # one pair per variable on EVERY path: an early `return []` / `return None` for a non-empty variable list hands the
    # solver a bounds list that no longer matches the columns -- and scipy.optimize.linprog reads a missing bounds
    # argument as (0, None) for every variable, not as "free"
    for r_ in [x for x in walk_local(eb.node) if isinstance(x, ast.Return) and x.value is not None]:
        v_ = r_.value
        cond_ = []
        if isinstance(v_, ast.IfExp):      # return bounds if any_bounded else []
            for alt_, pol_ in ((v_.body, True), (v_.orelse, False)):
                if (isinstance(alt_, (ast.List, ast.Tuple)) and not alt_.elts) or (isinstance(alt_, ast.Constant) and alt_.value is None):
                    cond_ = [(v_.test, pol_)]
                    v_ = alt_
                    break
        short = (isinstance(v_, (ast.List, ast.Tuple)) and not v_.elts) or (isinstance(v_, ast.Constant) and v_.value is None)
        if not short:
            continue
        gs_ = list(dominating_guards(r_)) + cond_
        only_empty = gs_ and all(pol_ and src(t_).replace(" ", "") in (f"not{bparam}", f"len({bparam})==0") for t_, pol_ in gs_)
        if only_empty:
            continue
        rep.ob("R05.5", "extract_bounds", False,
               f"returns `{src(v_)}` at line {r_.lineno} although `{bparam}` may be non-empty" + (f" (when `{src(gs_[0][0])[:60]}`)" if gs_ else "") +
               ": the bounds no longer have one entry per column, the LP solver is then called without bounds= and SciPy applies its default (0, None) to every variable -- free variables become non-negative",
               loc=f"{eb.module.rel}:{r_.lineno}", detail="bounds-per-column", robust=True)
    for var, lo, hi, env, node in pairs:
        lo_v = env.get(lo.id, lo) if isinstance(lo, ast.Name) else lo
        hi_v = env.get(hi.id, hi) if isinstance(hi, ast.Name) else hi
        for nm, v, attr in (("lb", lo_v, "lb"), ("ub", hi_v, "ub")):
            reads = {x.attr for x in ast.walk(v) if isinstance(x, ast.Attribute) and isinstance(x.value, ast.Name) and x.value.id == var}
            okp = reads == {attr}
            prob_ = bound_expr_problem(v) if okp else None
            rep.ob("R05.5", "extract_bounds", okp and prob_ is None,
                   f"{nm} = {src(v)[:50]}: the declared bound of the variable at that position, None only when it is None" if okp and prob_ is None else
                   ((prob_ + "; the LP is solved without that bound") if okp else f"the {nm} entry of a bounds pair is `{src(v)[:40]}`, not {var}.{attr}"),
                   loc=f"{eb.module.rel}:{getattr(v, 'lineno', node.lineno)}", detail=f"bound-value:{nm}")
    ex = L.methods.get("extract")
    # every LPData field is filled with the value extracted for it: c/sense from extract_objective, the four blocks from
    # extract_constraints in its return order, bounds from extract_bounds (keywords or positional arguments)
    from .common import constructor_fields
    lp_calls = [c for c in calls(ex.node) if dotted(c.func) == "LPData"]
    if not lp_calls:
        rep.undecided("extract: LPData(...) construction not found")
    else:
        fields = constructor_fields(prog, "LPData", lp_calls[0])
        ea = local_assignments(ex.node)
        origin = {}     # local name -> (producer, position in the returned tuple)
        for n in walk_local(ex.node):
            if isinstance(n, ast.Assign) and isinstance(n.value, ast.Call):
                f = src(n.value.func).split(".")[-1]
                tg = n.targets[0]
                if isinstance(tg, ast.Tuple):
                    for i, e in enumerate(tg.elts):
                        if isinstance(e, ast.Name):
                            origin[e.id] = (f, i)
                elif isinstance(tg, ast.Name):
                    origin[tg.id] = (f, None)
        want = {"c": ("extract_objective", 0), "sense": ("extract_objective", 1), "A_ub": ("extract_constraints", 0), "b_ub": ("extract_constraints", 1), "A_eq": ("extract_constraints", 2), "b_eq": ("extract_constraints", 3), "bounds": ("extract_bounds", None)}
        bad = []
        unk = []
        for fld, w in want.items():
            v = fields.get(fld)
            got = origin.get(v.id) if isinstance(v, ast.Name) else ((src(v.func).split(".")[-1], None) if isinstance(v, ast.Call) else None)
            if got == w:
                continue
            if got is None or got[0] not in {x[0] for x in want.values()}:
                unk.append(f"{fld} <- {src(v)[:30] if v is not None else 'not visible'}")
            else:
                bad.append(f"{fld} <- {src(v)[:30]} (value {got[1] if got[1] is not None else ''} of {got[0]})")
        if unk and not bad:
            rep.undecided(f"extract: where LPData field(s) come from is not readable ({'; '.join(unk[:2])})")
        else:
          rep.ob("R05.5", "extract", not bad, "LPData fields are filled from the values extracted for them (c, sense | A_ub, b_ub, A_eq, b_eq | bounds)" if not bad else f"LPData fields are not filled one-to-one from the extracted values: {bad[0]}", loc=f"{ex.module.rel}:{lp_calls[0].lineno}", detail="fields")
