"""C07 -- reported objective value and variable values are self-consistent.

R07.1 provenance of objective_value: re-evaluation of the objective, or the backend's `fun` where the function /
      cost vector handed to the backend denotes the WHOLE objective (linprog's c omits the constant term)
R07.2 negate / un-negate pairing: the objective handed to the backend is negated under exactly the condition
      under which the reported value is negated back
R07.3 values are built by enumerating the same variable list that defined the backend's columns
R07.4 Solution handles write position i from the i-th variable of the handle, [i, j] from mat[i, j]
"""

from __future__ import annotations

import ast

from ..astutil import dotted, src, walk_local, local_assignments, calls, dominating_guards
from ..report import AnalysisError
from .c18 import backend_calls

LPDATA_MATRIX_FIELDS = {"c", "sense", "A_ub", "b_ub", "A_eq", "b_eq", "bounds", "variables"}


def feeds(name_or_expr, assigns, depth=0, seen=None):
    """All expression nodes that flow into a local (through assignments / augmented assignments)."""
    seen = seen if seen is not None else set()
    out = []
    todo = [name_or_expr]
    while todo:
        e = todo.pop()
        out.append(e)
        for n in ast.walk(e):
            if isinstance(n, ast.Name) and n.id in assigns and n.id not in seen:
                seen.add(n.id)
                for v in assigns[n.id]:
                    if isinstance(v, ast.AugAssign):
                        todo.append(v.value)
                    elif isinstance(v, ast.AST):
                        todo.append(v)
    return out


def negations(fi):
    """[(name, guard source, node)] for `N = -N` assignments (sign flips) in a function."""
    out = []
    for n in walk_local(fi.node, include_self=False):
        if isinstance(n, ast.Assign) and len(n.targets) == 1 and isinstance(n.targets[0], ast.Name):
            v = n.value
            if isinstance(v, ast.UnaryOp) and isinstance(v.op, ast.USub) and isinstance(v.operand, ast.Name) and v.operand.id == n.targets[0].id:
                gs = dominating_guards(n)
                g = " and ".join(sorted((("" if pol else "not ") + src(t)) for t, pol in gs if "None" not in src(t) and " in " not in src(t) and "use_hessian" not in src(t)))
                out.append((n.targets[0].id, g, n))
            # N = -E if T else E   /   N = E if T else -E
            if isinstance(v, ast.IfExp):
                a, b = v.body, v.orelse
                na = a.operand if isinstance(a, ast.UnaryOp) and isinstance(a.op, ast.USub) else None
                nb = b.operand if isinstance(b, ast.UnaryOp) and isinstance(b.op, ast.USub) else None
                pol = None
                if na is not None and src(na) == src(b):
                    pol = True
                elif nb is not None and src(nb) == src(a):
                    pol = False
                if pol is not None:
                    gs = [(v.test, pol)] + dominating_guards(n)
                    g = " and ".join(sorted((("" if p_ else "not ") + src(t)) for t, p_ in gs if "None" not in src(t) and " in " not in src(t) and "use_hessian" not in src(t)))
                    out.append((n.targets[0].id, g, n))
    return out


def solution_calls(fi):
    return [c for c in calls(fi.node) if dotted(c.func) == "Solution"]


def check(prog, rep):
    from . import pitfalls as _pit
    rep.section(_pit.report, prog, rep, 'R07.P', ['src/optyx/solution.py'], ('P1', 'P3'))
    bcs = backend_calls(prog)
    if not bcs:
        raise AnalysisError("no backend call sites")
    for fi, call, which in bcs:
        backend = which.split(".")[-1]
        assigns = local_assignments(fi.node)
        sols = [c for c in solution_calls(fi) if any(k.arg == "objective_value" for k in c.keywords)]
        if not sols:
            raise AnalysisError(f"{fi.name}: no Solution(objective_value=...) after {backend}()")
        par = getattr(call, "_parent", None)
        res = par.targets[0].id if isinstance(par, ast.Assign) and isinstance(par.targets[0], ast.Name) else None
        if res is None:
            raise AnalysisError(f"{fi.name}: result of {backend}() not bound to a name")
        for sc in sols:
            ov = [k.value for k in sc.keywords if k.arg == "objective_value"][0]
            fl = feeds(ov, assigns)
            text = " ; ".join(src(e) for e in fl)
            uses_fun = f"{res}.fun" in text
            reevaluates = ".evaluate(" in text
            construct = f"{fi.name}:objective_value"
            if backend == "linprog":
                # F9: linprog's fun is c @ x; the cost vector carries no constant term
                const_src = any(
                    (isinstance(n, ast.Call) and "constant" in (dotted(n.func) or "").lower())
                    or (isinstance(n, ast.Attribute) and isinstance(n.value, ast.Name) and n.attr not in LPDATA_MATRIX_FIELDS and _is_lpdata(n.value.id, assigns, fi, prog))
                    for e in fl for n in ast.walk(e)
                )
                ok = reevaluates or (uses_fun and const_src)
                rep.ob("R07.1", construct, ok,
                       "reported value = backend fun (c.x) plus the objective's constant term (or a re-evaluation)" if ok else
                       f"objective_value is derived from {res}.fun only; linprog's fun is c.x and the cost vector omits the objective's constant term, so `minimize x + 5` reports 0 instead of 5",
                       loc=f"{fi.module.rel}:{sc.lineno}", detail="includes-constant-term")
            else:
                # minimize: fun is the compiled (possibly negated) objective expression itself
                ok = uses_fun or reevaluates
                whole = _fun_is_whole_objective(prog, fi, call)
                if whole is None and ok:
                    rep.undecided(f"{construct}: where the function handed to minimize() is compiled from was not found (no recognisable store under cache key 'obj_fn')")
                    continue
                rep.ob("R07.1", construct, ok and whole,
                       f"reported value = {res}.fun where fun is compiled from the whole objective expression" if ok and whole else
                       ("objective_value does not derive from the backend's fun or a re-evaluation" if not ok else "the function handed to minimize() is not compiled from the problem's objective expression"),
                       loc=f"{fi.module.rel}:{sc.lineno}", detail="from-whole-objective")
            # R07.1b: the reported value as a symbolic term per sense (order of sign-undo and constant matters)
            _reported_term(prog, rep, fi, sc, ov, res, backend)
            # R07.3 value alignment
            vv = [k.value for k in sc.keywords if k.arg == "values"]
            if vv:
                ok, why = _values_aligned(prog, fi, vv[0], assigns, res, call, backend, reevaluates=reevaluates)
                if ok is None:
                    rep.undecided(f"{fi.name}: {why}")
                    continue
                rep.ob("R07.3", f"{fi.name}:values", ok, why, loc=f"{fi.module.rel}:{sc.lineno}", detail="aligned-with-backend-columns", robust=True)   # _values_aligned answers None for what it cannot read

    # ------------------------------------------------------------------ R07.2
    # what the backend is asked to minimise, per world: -objective iff the user maximises (the output side -- the
    # reported value is un-negated under the same condition -- is R07.1's value-term)
    n_in = 0
    for fi, call, which in bcs:
        backend = which.split(".")[-1]
        if backend == "linprog":
            target = _linprog_cost_expr(fi, call)
            where, base, host = f"{fi.name}:linprog(c=)", "c", fi
        else:
            host, target = _compiled_objective_expr(prog, fi)
            where, base = f"{host.name if host else fi.name}:compile_expression(objective)", "objective"
        if target is None:
            rep.undecided(f"{where}: the expression handed to the backend as objective was not found in this function (built elsewhere?)")
            continue
        for world in ("max", "min"):
            try:
                got = _world_value(prog, host, target, world, base)
            except AnalysisError as e:
                rep.undecided(f"{where}: {e}")
                break
            if got is None:
                rep.undecided(f"{where}: objective handed to the backend not interpretable")
                break
            from .. import algebra as al_
            want = (al_.C(-1) if world == "max" else al_.C(1)) * al_.A("BASE")
            ok = got.eq(want)
            n_in += 1
            rep.ob("R07.2", where, ok,
                   f"{'maximise' if world == 'max' else 'minimise'}: the backend minimises {want.key().replace('BASE', base)}" if ok else
                   f"{'maximise' if world == 'max' else 'minimise'}: the backend is handed {got.key().replace('BASE', base)} to minimise; to {'maximise' if world == 'max' else 'minimise'} the user's objective it must be {want.key().replace('BASE', base)} (and the reported value is un-negated under the same condition)",
                   loc=f"{host.module.rel}:{getattr(target, 'lineno', call.lineno)}", detail=f"backend-objective:{world}", robust=True)
    if n_in == 0:
        rep.undecided("R07.2: no backend objective could be interpreted")
    # LPData.sense mapping
    ext = prog.cls("LinearProgramExtractor").methods.get("extract_objective")
    if ext is None:
        raise AnalysisError("LinearProgramExtractor.extract_objective not found")
    # walked once per world: the second component of what extract_objective returns (LPData.sense, see C05 R05.5)
    from ..scenario import Explorer as _Ex

    def _sense_holds(t, world):
        text = src(t)
        if "sense" not in text or not isinstance(t, ast.Compare) or len(t.ops) != 1:
            return None
        is_max, is_min = "'max" in text, "'min" in text
        if not (is_max or is_min) or not isinstance(t.ops[0], (ast.Eq, ast.NotEq)):
            return None
        holds = (world == "max") == is_max
        return holds if isinstance(t.ops[0], ast.Eq) else not holds

    def _sval(e, env, world, depth=0):
        if isinstance(e, ast.Constant) and isinstance(e.value, str):
            return e.value
        if isinstance(e, ast.Name) and e.id in env:
            return env[e.id]
        if isinstance(e, ast.IfExp):
            r = _sense_holds(e.test, world)
            return None if r is None else _sval(e.body if r else e.orelse, env, world, depth + 1)
        if isinstance(e, ast.Subscript) and isinstance(e.value, ast.Dict) and "sense" in src(e.slice):
            for k, v in zip(e.value.keys, e.value.values):
                if isinstance(k, ast.Constant) and k.value == ("maximize" if world == "max" else "minimize"):
                    return _sval(v, env, world, depth + 1)
        if isinstance(e, ast.Call) and isinstance(e.func, ast.Attribute) and e.func.attr == "get" and isinstance(e.func.value, ast.Dict) and e.args and "sense" in src(e.args[0]):
            for k, v in zip(e.func.value.keys, e.func.value.values):
                if isinstance(k, ast.Constant) and k.value == ("maximize" if world == "max" else "minimize"):
                    return _sval(v, env, world, depth + 1)
        return None

    got = {}
    for world in ("max", "min"):
        def at(t, state, world=world):
            return _sense_holds(t, world)

        def on(st, state, world=world):
            if isinstance(st, (ast.Assign, ast.AnnAssign)) and getattr(st, "value", None) is not None:
                tg = st.targets[0] if isinstance(st, ast.Assign) else st.target
                if isinstance(tg, ast.Name):
                    state["env"][tg.id] = _sval(st.value, state["env"], world)
        vals = set()
        try:
            for state, term in _Ex(at, on).explore(ext.node.body, {"env": {}}):
                if isinstance(term, tuple) and term[0] == "return" and isinstance(term[1], ast.Tuple) and len(term[1].elts) >= 2:
                    vals.add(_sval(term[1].elts[1], state["env"], world))
                elif isinstance(term, tuple) and term[0] == "return":
                    vals.add(None)
        except Exception:
            vals = {None}
        got[world] = vals
    if any(None in v or len(v) != 1 for v in got.values()):
        rep.undecided("LinearProgramExtractor.extract_objective: what is returned as the LP sense is not readable per problem sense")
    else:
        gm, gx = next(iter(got["min"])), next(iter(got["max"]))
        ok = (gm, gx) == ("min", "max")
        rep.ob("R07.2", "LinearProgramExtractor.extract_objective", ok, "maps minimize -> 'min', maximize -> 'max'" if ok else f"a minimisation is recorded as {gm!r} and a maximisation as {gx!r}: the LP solver negates the cost vector (and un-negates the reported value) for the wrong one", loc=ext.loc, detail="sense-mapping", robust=True)

    # ------------------------------------------------------------------ R07.3 (extractor side)
    ex = prog.cls("LinearProgramExtractor").methods.get("extract")
    if ex is None:
        raise AnalysisError("LinearProgramExtractor.extract not found")
    a = local_assignments(ex.node)
    tup = [n for n in walk_local(ex.node, include_self=False) if isinstance(n, ast.Assign) and isinstance(n.targets[0], ast.Tuple) and isinstance(n.value, ast.Call) and "extract_objective" in src(n.value.func)]
    if not tup:
        raise AnalysisError("extract(): call to extract_objective not found")
    var_name = tup[0].targets[0].elts[-1].id
    uses = {"extract_constraints": False, "extract_bounds": False, "LPData.variables": False}
    def same_list(e):
        """True: the list that defined the columns; False: a reordering / another collection of it; None: not read"""
        if isinstance(e, ast.Name) and e.id != var_name:
            vals_ = [v for v in a.get(e.id, []) if isinstance(v, ast.AST)]
            e = vals_[0] if len(vals_) == 1 else e
        if src(e) == var_name:
            return True
        if isinstance(e, ast.Call) and (dotted(e.func) or "") in ("sorted", "reversed", "set", "frozenset") :
            return False
        if isinstance(e, ast.Subscript) and isinstance(e.slice, ast.Slice) and e.slice.step is not None:
            return False            # a strided / reversed slice: another order
        if isinstance(e, ast.Call) and dotted(e.func) == "list" and e.args and isinstance(e.args[0], ast.Call) and (dotted(e.args[0].func) or "") in ("sorted", "reversed", "set", "frozenset"):
            return False
        return None

    uses = {}
    whys = {}
    for c in calls(ex.node, local=False):
        f = src(c.func)
        for what in ("extract_constraints", "extract_bounds"):
            if f.endswith(what):
                rs = [same_list(x) for x in c.args]
                uses[what] = True if True in rs else (False if False in rs else None)
                whys[what] = ", ".join(src(x)[:30] for x in c.args)
        if f == "LPData":
            from .common import constructor_fields
            fv = constructor_fields(prog, "LPData", c).get("variables")
            if isinstance(fv, ast.Name):
                vals_ = [v for v in a.get(fv.id, []) if isinstance(v, ast.AST)]
                fv = vals_[0] if len(vals_) == 1 else fv
            if isinstance(fv, ast.ListComp) and len(fv.generators) == 1 and src(fv.elt) == f"{src(fv.generators[0].target)}.name" and not fv.generators[0].ifs:
                uses["LPData.variables"] = same_list(fv.generators[0].iter)
                whys["LPData.variables"] = src(fv.generators[0].iter)[:40]
            else:
                uses["LPData.variables"] = None
                whys["LPData.variables"] = src(fv)[:40] if fv is not None else "not visible"
    for k in ("extract_constraints", "extract_bounds", "LPData.variables"):
        v = uses.get(k)
        if v is None:
            rep.undecided(f"LinearProgramExtractor.extract:{k}: given `{whys.get(k, 'nothing found')}`; whether that is the variable list that defined the cost vector's columns ('{var_name}') is not decided")
            continue
        rep.ob("R07.3", f"LinearProgramExtractor.extract:{k}", v, f"{k} uses the variable list returned by extract_objective ('{var_name}')" if v else f"{k} is given `{whys[k]}`, a re-ordered / de-duplicated collection, not the list that defined the cost vector's columns ('{var_name}'): names and columns no longer line up", loc=ex.loc, detail="one-variable-list", robust=True)

    # ------------------------------------------------------------------ R07.4 handles
    S = prog.cls("Solution")
    gv = S.methods.get("_get_vector")
    gm = S.methods.get("_get_matrix")
    if gv is None or gm is None:
        raise AnalysisError("Solution._get_vector / _get_matrix not found")
    _handle_fill(rep, gv, "vector")
    _handle_fill(rep, gm, "matrix")
    gi = S.methods.get("__getitem__")
    if gi is None:
        raise AnalysisError("Solution.__getitem__ not found")
    order = []
    for n in walk_local(gi.node, include_self=False):
        if isinstance(n, ast.If):
            t = n.test
            if isinstance(t, ast.Call) and dotted(t.func) == "isinstance":
                order.append((src(t.args[1]), [dotted(c.func) for c in calls(ast.Module(body=n.body, type_ignores=[]))] + [src(r.value) for r in n.body if isinstance(r, ast.Return)]))
    want = {"VectorVariable": "_get_vector", "MatrixVariable": "_get_matrix"}
    for k, meth in want.items():
        ok = any(kind == k and any(meth in str(x) for x in acts) for kind, acts in order)
        rep.pin("solution handles", "R07.4", "Solution.__getitem__", ok, f"{k} handles are answered by {meth}" if ok else f"{k} handles are not dispatched to {meth}", loc=gi.loc, detail=f"dispatch:{k}")

    # artefacts built under one sense (negated callables, LPData.sense / sign of c) are only valid while the sense
    # stands: every public edit of the sense must invalidate them (the must-analysis of C13 R13.1, re-evaluated here)
    from ..report import Report as _Report
    from . import c13 as _c13
    _sub = _Report(rep.prop, rep.tier, quiet=True)
    try:
        _c13.check(prog, _sub)
    except AnalysisError as e:
        rep.undecided(f"sense-edit invalidation (C13 R13.1): {e}")
    else:
        for o in _sub.obs:
            if o.rule == "R13.6" and not o.ok and any(w in o.msg for w in (".c ", ".c)", ".c(", "linprog_args", "sense")) and "lp" in (o.loc or ""):
                # the cached cost vector (its sign carries the maximise orientation) is altered by a solve: the next solve
                # negates it again while the reported value is un-negated as if it had not been
                rep.ob("R07.2", o.construct, False, "the reported objective value is un-negated for maximise on the assumption that the backend was handed -c exactly once: " + o.msg, loc=o.loc, detail="cost-vector-" + (o.detail or ""), robust=True)
            if o.rule == "R13.1" and o.construct in ("Problem.minimize", "Problem.maximize"):
                rep.ob("R07.2", o.construct, o.ok, ("switching the sense invalidates what was built under the old one: " if o.ok else "a sense switch can keep artefacts built under the old sense (negated callables / LP data) while the reported value is un-negated under the new one: ") + o.msg, loc=o.loc, detail="sense-edit:" + o.detail)
    rep.expect_min("R07.1", 2)
    rep.expect_min("R07.2", 3)
    rep.expect_min("R07.3", 5)
    rep.expect_min("R07.4", 4)
    rep.explanation = (
        "Def-use rules in the two solver modules: provenance of objective_value (whole objective vs. cost vector "
        "without constant), textual identity of the guard under which the backend objective and the reported value are "
        "sign-flipped, one variable list defining both the backend columns and the name->value dictionary, and the "
        "index maps of Solution handles."
    )


def _resolve_local(e, assigns, depth=0):
    """Follow single-assignment locals and constant subscripts of local tuples: shape[0] -> mat.rows."""
    if depth > 4:
        return e
    if isinstance(e, ast.Name):
        vals = [v for v in assigns.get(e.id, []) if isinstance(v, ast.AST)]
        if len(vals) == 1 and not isinstance(vals[0], ast.AugAssign):
            return _resolve_local(vals[0], assigns, depth + 1)
    if isinstance(e, ast.Subscript) and isinstance(e.slice, ast.Constant) and isinstance(e.slice.value, int):
        base = _resolve_local(e.value, assigns, depth + 1)
        if isinstance(base, ast.Tuple) and 0 <= e.slice.value < len(base.elts):
            return _resolve_local(base.elts[e.slice.value], assigns, depth + 1)
    return e


def _handle_fill(rep, m_, kind):
    """R07.4: a Solution handle returns one array whose entry [i] (resp. [i, j]) is values[<i-th variable of the
    handle>.name] for EVERY position: decided from the writes into the returned array and the loops that bind the
    indices, with local aliases resolved (names of locals, enumerate vs. range, nested loops vs. product do not
    matter)."""
    construct = f"Solution.{m_.name}"
    assigns = local_assignments(m_.node)
    handle = m_.node.args.args[1].arg
    rets = [n for n in walk_local(m_.node) if isinstance(n, ast.Return)]
    names = {r.value.id for r in rets if isinstance(r.value, ast.Name)}
    filled = None
    for nm in names:
        if any(isinstance(v, ast.Call) and dotted(v.func) in ("np.zeros", "np.empty", "np.full") for v in assigns.get(nm, [])):
            filled = nm
    comp_fill = None
    if filled is None:
        # or: result = np.array(<comprehension over the handle's elements>)
        for r in rets:
            for nm in [x.id for x in ast.walk(r.value) if isinstance(x, ast.Name)] if r.value is not None else []:
                for v in assigns.get(nm, []):
                    if isinstance(v, ast.Call) and dotted(v.func) in ("np.array", "np.asarray") and v.args and isinstance(v.args[0], ast.ListComp):
                        filled, comp_fill = nm, v.args[0]
    if filled is None:
        rep.undecided(f"{construct}: no returned array allocated by np.zeros/np.empty found")
        return
    if comp_fill is not None:
        # [[values[v.name] for v in row] for row in handle._variables]  /  [values[v.name] for v in handle._variables]
        def is_values(e):
            return src(_resolve_local(e, assigns)) == "self.values"
        outer = comp_fill
        g0 = outer.generators[0]
        okc = False
        if kind == "matrix" and isinstance(outer.elt, ast.ListComp) and len(outer.generators) == 1 and not g0.ifs and src(g0.iter) == f"{handle}._variables":
            inner = outer.elt
            g1 = inner.generators[0]
            okc = len(inner.generators) == 1 and not g1.ifs and src(g1.iter) == src(g0.target) and isinstance(inner.elt, ast.Subscript) and is_values(inner.elt.value) and src(inner.elt.slice) == f"{src(g1.target)}.name"
        if kind == "vector" and len(outer.generators) == 1 and not g0.ifs and src(g0.iter) == f"{handle}._variables":
            okc = isinstance(outer.elt, ast.Subscript) and is_values(outer.elt.value) and src(outer.elt.slice) == f"{src(g0.target)}.name"
        if not okc:
            rep.undecided(f"{construct}: the returned array is built by a comprehension this rule cannot read")
            return
        rep.ob("R07.4", construct, True, "the array is built position by position from the handle's own element grid", loc=m_.loc, detail="position")
        for r in rets:
            okr = isinstance(r.value, ast.Name) and r.value.id == filled
            rep.ob("R07.4", construct, okr, "every return hands out the array filled by name lookup" if okr else f"returns `{src(r.value)[:60]}`: the array looked up position by position from the handle's own element grid is re-arranged before it is returned (the handle's grid already has the handle's layout, e.g. a transpose view stores its elements transposed)", loc=f"{m_.module.rel}:{r.lineno}", detail=f"return:{'filled' if okr else src(r.value)[:30]}")
        return
    for r in rets:
        okr = isinstance(r.value, ast.Name) and r.value.id == filled
        rep.ob("R07.4", construct, okr, "every return hands out the array filled by name lookup" if okr else f"also returns `{src(r.value)[:60]}`, which is not looked up by variable name position by position (e.g. relies on the order of the values dict)", loc=f"{m_.module.rel}:{r.lineno}", detail=f"return:{'filled' if okr else src(r.value)[:30]}")
    writes = [n for n in walk_local(m_.node) if isinstance(n, ast.Assign) and isinstance(n.targets[0], ast.Subscript) and src(n.targets[0].value) == filled]
    if not writes:
        rep.undecided(f"{construct}: no write into the returned array `{filled}` found")
        return

    def is_values(e):
        e = _resolve_local(e, assigns)
        return src(e) == "self.values"

    for w in writes:
        idx = w.targets[0].slice
        idxs = [src(e) for e in idx.elts] if isinstance(idx, ast.Tuple) else [src(idx)]
        # loops binding the index names
        bind = {}
        p = getattr(w, "_parent", None)
        while p is not None and p is not m_.node:
            if isinstance(p, ast.For):
                it = p.iter
                tg = [src(e) for e in p.target.elts] if isinstance(p.target, ast.Tuple) else [src(p.target)]
                if isinstance(it, ast.Call) and dotted(it.func) == "enumerate" and len(tg) == 2:
                    bind[tg[0]] = ("enum-index", src(it.args[0]))
                    bind[tg[1]] = ("enum-item", src(it.args[0]))
                elif isinstance(it, ast.Call) and dotted(it.func) == "range" and len(it.args) == 1 and len(tg) == 1:
                    bind[tg[0]] = ("range", src(_resolve_local(it.args[0], assigns)))
                elif isinstance(it, ast.Call) and dotted(it.func) in ("product", "itertools.product", "np.ndindex") and len(tg) == 1 and len(it.args) == 2:
                    # one name for the whole (i, j) cell
                    rs = [src(_resolve_local(a.args[0], assigns)) if isinstance(a, ast.Call) and dotted(a.func) == "range" and len(a.args) == 1 else (src(_resolve_local(a, assigns)) if dotted(it.func) == "np.ndindex" else "?") for a in it.args]
                    bind[tg[0]] = ("cell", rs)
                elif isinstance(it, ast.Call) and dotted(it.func) in ("product", "itertools.product") and all(isinstance(a, ast.Call) and dotted(a.func) == "range" and len(a.args) == 1 for a in it.args) and len(tg) == len(it.args):
                    for nm, a in zip(tg, it.args):
                        bind[nm] = ("range", src(_resolve_local(a.args[0], assigns)))
                else:
                    for nm in tg:
                        bind[nm] = ("other", src(it))
            p = getattr(p, "_parent", None)
        v = w.value
        look = v if isinstance(v, ast.Subscript) else (v.args[0] if isinstance(v, ast.Call) and dotted(v.func) == "float" and v.args and isinstance(v.args[0], ast.Subscript) else None)
        if look is None:
            # self._scalar(v.name): a one-expression accessor of the class that returns self.values[<its parameter>]
            inner = v.args[0] if isinstance(v, ast.Call) and dotted(v.func) == "float" and v.args else v
            if isinstance(inner, ast.Call) and isinstance(inner.func, ast.Attribute) and dotted(inner.func.value) == "self" and len(inner.args) == 1 and not inner.keywords and m_.cls is not None and inner.func.attr in m_.cls.methods:
                h = m_.cls.methods[inner.func.attr]
                hb = [x for x in h.node.body if not (isinstance(x, ast.Expr) and isinstance(x.value, ast.Constant))]
                hp = [a.arg for a in h.node.args.args]
                if len(hb) == 1 and isinstance(hb[0], ast.Return) and len(hp) == 2:
                    rv = hb[0].value
                    if isinstance(rv, ast.Call) and dotted(rv.func) == "float" and rv.args:
                        rv = rv.args[0]
                    if isinstance(rv, ast.Subscript) and src(rv.value) == "self.values" and src(rv.slice) == hp[1]:
                        look = ast.Subscript(value=rv.value, slice=inner.args[0], ctx=ast.Load())
        why = None
        unk = None
        if look is None and not any(isinstance(x, ast.Call) and isinstance(x.func, ast.Attribute) and x.func.attr == "values" for x in ast.walk(v)):
            rep.undecided(f"{construct}: `{src(w)[:60]}` is not a lookup this rule can read")
            continue
        if look is None or not is_values(look.value):
            why = f"{filled}[{', '.join(idxs)}] is filled from `{src(v)[:50]}`, not from a lookup in self.values"
        else:
            key = look.slice
            if not (isinstance(key, ast.Attribute) and key.attr == "name"):
                unk = f"the lookup key `{src(key)[:40]}` is not `<variable>.name`"
            else:
                who = key.value
                if kind == "vector":
                    i = idxs[0] if len(idxs) == 1 else None
                    b = bind.get(i)
                    if b is None:
                        unk = f"index `{i}` is not bound by a loop form this rule reads"
                    elif b[0] == "enum-index":
                        seq = b[1]
                        item = [nm for nm, bb in bind.items() if bb == ("enum-item", seq)]
                        if not (seq in (f"{handle}._variables", handle) and item):
                            unk = f"enumerates `{seq}`"
                        elif src(who) != item[0] and handle not in src(who) and src(who) not in bind:
                            unk = f"looks up `{src(who)}`"
                        elif src(who) != item[0]:
                            why = f"{filled}[{i}] is the value of `{src(who)}`, which is not the {i}-th variable of the handle (enumerate({seq}))"
                    elif b[0] == "range":
                        if handle not in src(who) or handle not in b[1]:
                            unk = f"looks up `{src(who)}` for {i} in range({b[1]})"
                        elif not (src(who) in (f"{handle}._variables[{i}]", f"{handle}[{i}]") and b[1] in (f"{handle}.size", f"len({handle}._variables)", f"len({handle})")):
                            why = f"{filled}[{i}] = values[{src(who)}.name] for {i} in range({b[1]}) does not walk the handle position by position"
                    else:
                        unk = f"index `{i}` ranges over `{b[1][:40]}`"
                else:
                    if len(idxs) == 1 and bind.get(idxs[0], ("", None))[0] == "cell":
                        cell = idxs[0]
                        rs = bind[cell][1]
                        if handle not in src(who) or any("?" in r_ for r_ in rs):
                            unk = f"looks up `{src(who)}` over cells {rs}"
                        elif src(who) != f"{handle}[{cell}]":
                            why = f"{filled}[{cell}] is the value of `{src(who)}`, not of {handle}[{cell}]"
                        elif rs != [f"{handle}.rows", f"{handle}.cols"]:
                            why = f"the cells range over {rs}, not over the handle's rows x columns: part of the matrix stays 0"
                    elif len(idxs) != 2:
                        rep.undecided(f"{construct}: the write `{src(w)[:60]}` is not in a form this rule reads (result[i, j] = values[mat[i, j].name])")
                        continue
                    else:
                        i, j = idxs
                        bi, bj = bind.get(i), bind.get(j)
                        elem_ok = src(who) in (f"{handle}[{i}, {j}]", f"{handle}._variables[{i}][{j}]", f"{handle}[{i}][{j}]")
                        rng_ok = bi is not None and bj is not None and bi[0] == "range" and bj[0] == "range" and bi[1] == f"{handle}.rows" and bj[1] == f"{handle}.cols"
                        if handle not in src(who) or bi is None or bj is None or bi[0] != "range" or bj[0] != "range" or handle not in bi[1] or handle not in bj[1]:
                            unk = f"`{src(w)[:50]}` with {i} over {bi[1] if bi else '?'} and {j} over {bj[1] if bj else '?'}"
                        elif not elem_ok:
                            why = f"{filled}[{i}, {j}] is the value of `{src(who)}`, not of {handle}[{i}, {j}]"
                        elif not rng_ok:
                            why = f"{i} ranges over {bi[1] if bi else '?'} and {j} over {bj[1] if bj else '?'}, not over the handle's rows and columns: part of the matrix stays 0"
        if unk is not None and why is None:
            rep.undecided(f"{construct}: {unk}: not a form this rule reads")
            continue
        rep.ob("R07.4", construct, why is None, ("result[i] is the value of the i-th variable of the handle" if kind == "vector" else "result[i, j] is the value of mat[i, j], i over rows, j over cols") if why is None else why, loc=f"{m_.module.rel}:{w.lineno}", detail="position")


def _linprog_cost_expr(fi, call):
    """Expression handed to linprog as `c`: keyword, or entry of the **kwargs dictionary (literal or item store)."""
    for k in call.keywords:
        if k.arg == "c":
            return k.value
    star = [k.value for k in call.keywords if k.arg is None]
    if star and isinstance(star[0], ast.Name):
        d = star[0].id
        for n in walk_local(fi.node):
            if isinstance(n, ast.Dict) and any(isinstance(p_, (ast.Assign, ast.AnnAssign)) and src(p_.targets[0] if isinstance(p_, ast.Assign) else p_.target) == d for p_ in [getattr(n, "_parent", None)]):
                for kk, vv in zip(n.keys, n.values):
                    if isinstance(kk, ast.Constant) and kk.value == "c":
                        return vv
            if isinstance(n, ast.Assign) and isinstance(n.targets[0], ast.Subscript) and src(n.targets[0].value) == d and isinstance(n.targets[0].slice, ast.Constant) and n.targets[0].slice.value == "c":
                return n.value
    return None


def _compiled_objective_expr(prog, fi):
    """(function, expression) whose compile_expression(...) result becomes the objective callable of the SciPy path."""
    from .common import cache_entry_stores
    for f2, v, a2 in cache_entry_stores(prog, "obj_fn", lambda m: m is fi.module):
        if isinstance(v, ast.Name):
            vals = [x for x in a2.get(v.id, []) if isinstance(x, ast.AST)]
            v = vals[0] if len(vals) == 1 else v
        if isinstance(v, ast.Call) and dotted(v.func) == "compile_expression" and v.args:
            return f2, v.args[0]
    return None, None


def _world_value(prog, fi, target, world, base):
    """Symbolic value (in the atom BASE) of ``target`` (an expression evaluated at the end of fi's straight-line code)
    in the world where the user maximises / minimises."""
    from .. import algebra as al
    from ..terms import Tr, Untranslatable
    from ..astutil import clone

    BASE = al.A("BASE")
    assigns = local_assignments(fi.node)

    def gather(n):
        t = src(n)
        if base == "c" and isinstance(n, ast.Attribute) and n.attr == "c" and isinstance(n.value, ast.Name) and _is_lpdata(n.value.id, assigns, fi, prog):
            return BASE
        if base == "c" and isinstance(n, ast.Attribute) and n.attr in LPDATA_MATRIX_FIELDS and isinstance(n.value, ast.Name) and _is_lpdata(n.value.id, assigns, fi, prog):
            return al.A(f"{n.value.id}.{n.attr}")          # another field of the same record: a named atom
        if base == "objective" and isinstance(n, ast.Attribute) and n.attr in ("objective", "_objective"):
            return BASE
        return None

    def sense_test(t):
        text = src(t)
        if "sense" not in text:
            return None
        is_max, is_min = "'max" in text, "'min" in text
        pos = isinstance(t, ast.Compare) and isinstance(t.ops[0], ast.Eq)
        neg = isinstance(t, ast.Compare) and isinstance(t.ops[0], ast.NotEq)
        if not (is_max or is_min) or not (pos or neg):
            return None
        holds = (world == "max") == is_max
        return holds if pos else not holds

    class _Pick(ast.NodeTransformer):
        def visit_IfExp(self, node):
            self.generic_visit(node)
            r = sense_test(node.test)
            return node if r is None else (node.body if r else node.orelse)

    env = {}

    def run(stmts):
        for st in stmts:
            if isinstance(st, ast.If):
                r = sense_test(st.test)
                if r is None:
                    run(st.body)
                    run(st.orelse)
                else:
                    run(st.body if r else st.orelse)
            elif isinstance(st, (ast.Assign, ast.AnnAssign)) and getattr(st, "value", None) is not None:
                tg = st.targets[0] if isinstance(st, ast.Assign) else st.target
                if isinstance(tg, ast.Name):
                    try:
                        env[tg.id] = Tr(dict(env), gather=gather).t(_Pick().visit(clone(st.value)))
                    except Untranslatable:
                        env.pop(tg.id, None)
            elif isinstance(st, ast.AugAssign) and isinstance(st.target, ast.Name):
                # in-place scaling of a tracked array: c *= -1.0
                nm = st.target.id
                if nm in env and isinstance(st.op, (ast.Mult, ast.Div)):
                    try:
                        k = Tr(dict(env), gather=gather).t(_Pick().visit(clone(st.value)))
                        env[nm] = env[nm] * k if isinstance(st.op, ast.Mult) else None
                        if env[nm] is None:
                            env.pop(nm)
                    except Untranslatable:
                        env.pop(nm, None)
                else:
                    env.pop(nm, None)
            elif isinstance(st, ast.Expr) and isinstance(st.value, ast.Call):
                # np.negative(c, out=c) / np.multiply(c, k, out=c): the array named by out= is rewritten
                c_ = st.value
                outs = [k.value.id for k in c_.keywords if k.arg == "out" and isinstance(k.value, ast.Name)]
                for nm in outs:
                    d_ = (dotted(c_.func) or "").split(".")[-1]
                    if d_ == "negative" and c_.args and isinstance(c_.args[0], ast.Name) and c_.args[0].id == nm and nm in env:
                        env[nm] = al.C(-1) * env[nm]
                    else:
                        env.pop(nm, None)
            elif isinstance(st, (ast.Try, ast.With, ast.For, ast.While)):
                run(st.body)

    run(fi.node.body)
    try:
        return Tr(dict(env), gather=gather).t(_Pick().visit(clone(target)))
    except Untranslatable:
        return None


def _reported_term(prog, rep, fi, sc, ov, res, backend):
    """Evaluate the straight-line code that computes objective_value in two worlds (maximise / minimise):
    minimize(): value must be s*fun;  linprog: s*fun + c0   with s = -1 iff maximise."""
    from .. import algebra as al
    from ..terms import Tr, Untranslatable

    FUN, C0 = al.A("fun"), al.A("c0")

    def gather(n):
        t = src(n)
        if t == f"{res}.fun":
            return FUN
        if isinstance(n, ast.Attribute) and n.attr not in LPDATA_MATRIX_FIELDS and isinstance(n.value, ast.Name) and _is_lpdata(n.value.id, local_assignments(fi.node), fi, prog):
            return C0
        if isinstance(n, ast.Call) and "constant" in (dotted(n.func) or "").lower():
            return C0
        return None

    if not isinstance(ov, ast.Name):
        return
    target = ov.id
    for world in ("max", "min"):
        env = {}

        def sense_test(t):
            text = src(t)
            if "sense" not in text:
                return None
            is_max = "'max" in text
            is_min = "'min" in text
            pos = isinstance(t, ast.Compare) and isinstance(t.ops[0], ast.Eq)
            if not (is_max or is_min):
                return None
            holds = (world == "max") == is_max
            return holds if pos else not holds

        class _Pick(ast.NodeTransformer):
            """Conditional expressions on the sense are resolved for this world."""

            def visit_IfExp(self, node):
                self.generic_visit(node)
                r = sense_test(node.test)
                if r is None:
                    return node
                return node.body if r else node.orelse

        def pick(e):
            from ..astutil import clone
            return _Pick().visit(clone(e))

        def run(stmts):
            for st in stmts:
                if isinstance(st, ast.If):
                    r = sense_test(st.test)
                    if r is None:
                        # other guards (e.g. `result.fun is not None`): follow the body
                        run(st.body)
                    else:
                        run(st.body if r else st.orelse)
                elif isinstance(st, (ast.Assign, ast.AnnAssign)) and (st.value is not None):
                    tg = st.targets[0] if isinstance(st, ast.Assign) else st.target
                    if isinstance(tg, ast.Name) and tg.id == target:
                        if isinstance(st.value, ast.Constant) and st.value.value is None:
                            continue
                        env[target] = Tr(dict(env), gather=gather).t(pick(st.value))
                    elif isinstance(tg, ast.Name):
                        # other locals feeding the value (raw = float(res.fun)); untranslatable ones stay unbound
                        try:
                            env[tg.id] = Tr(dict(env), gather=gather).t(pick(st.value))
                        except Untranslatable:
                            env.pop(tg.id, None)
                elif isinstance(st, ast.AugAssign) and isinstance(st.target, ast.Name) and st.target.id == target and target in env:
                    rhs = Tr(dict(env), gather=gather).t(pick(st.value))
                    cur = env[target]
                    env[target] = {ast.Add: cur + rhs, ast.Sub: cur - rhs, ast.Mult: cur * rhs}.get(type(st.op), cur)
                elif isinstance(st, ast.Try):
                    run(st.body)

        try:
            run(fi.node.body)
        except Untranslatable as e:
            raise AnalysisError(f"{fi.name}: computation of {target} not interpretable: {e}")
        got = env.get(target)
        if got is None:
            raise AnalysisError(f"{fi.name}: no assignment to {target} found")
        sgn = al.C(-1) if world == "max" else al.C(1)
        want = sgn * FUN + (C0 if backend == "linprog" else al.C(0))
        ok = got.eq(want)
        rep.ob("R07.1", f"{fi.name}:objective_value", ok,
               f"{'maximise' if world == 'max' else 'minimise'}: reported value = {want.key()}" if ok else
               f"{'maximise' if world == 'max' else 'minimise'}: reported value is {got.key()} but the user's objective at the returned point is {want.key()} (the backend minimised {'-' if world == 'max' else ''}objective{' without its constant term c0' if backend == 'linprog' else ''})",
               loc=f"{fi.module.rel}:{sc.lineno}", detail=f"value-term:{world}")


_LPF: dict = {}


def _lpdata_fields(prog):
    if "f" not in _LPF:
        C = prog.cls("LPData")
        _LPF["f"] = {st.target.id for st in C.node.body if isinstance(st, ast.AnnAssign) and isinstance(st.target, ast.Name)}
    return _LPF["f"]


def _is_lpdata(name, assigns, fi=None, prog=None):
    """The local holds the extracted LP data: it is bound from the cache / the extractor, or (structural typing) the
    attributes read on it in this function are LPData fields, at least two different ones."""
    for v in assigns.get(name, []):
        s = src(v) if isinstance(v, ast.AST) else ""
        if "_lp_cache" in s or "extract(" in s:
            return True
    if fi is not None and prog is not None:
        attrs = {n.attr for n in walk_local(fi.node) if isinstance(n, ast.Attribute) and isinstance(n.value, ast.Name) and n.value.id == name}
        fields = _lpdata_fields(prog)
        return len(attrs) >= 2 and attrs <= fields
    return False


def _fun_is_whole_objective(prog, fi, call):
    """minimize(fun=objective): objective -> obj_fn -> cache['obj_fn'] = compile_expression(obj_expr) with
    obj_expr = problem.objective (possibly negated).  None when no store under 'obj_fn' is found (idiom unknown)."""
    from .common import cache_entry_stores
    stores = cache_entry_stores(prog, "obj_fn", lambda m: m is fi.module)
    if not stores:
        return None
    verdicts = []
    for f2, v, a2 in stores:
        if isinstance(v, ast.Name) and len([x for x in a2.get(v.id, []) if isinstance(x, ast.AST)]) == 1:
            v = a2[v.id][0]
        if not (isinstance(v, ast.Call) and dotted(v.func) == "compile_expression" and v.args):
            verdicts.append(None)
            continue
        a0 = v.args[0]
        if any(isinstance(x, ast.Attribute) and x.attr in ("objective", "_objective") for x in ast.walk(a0)):
            verdicts.append(True)
        elif isinstance(a0, ast.Name):
            srcs = [x for x in a2.get(a0.id, []) if isinstance(x, ast.AST)]
            hit = any(isinstance(y, ast.Attribute) and y.attr in ("objective", "_objective") for x in srcs for y in ast.walk(x))
            verdicts.append(True if hit else (False if srcs else None))
        else:
            verdicts.append(None)
    if any(v is False for v in verdicts):
        return False
    return True if all(v is True for v in verdicts) else None


def _values_aligned(prog, fi, vexpr, assigns, res, call, backend, reevaluates=False):
    """values = {<name of the i-th variable>: <res>.x[i]} over the variable list that defines the backend's columns.
    Accepted shapes: a dict comprehension (possibly inside a conditional expression, possibly through locals), or a loop
    filling the dict; `<res>.x` may be held in a local.  -> (True/False/None, why)"""
    walrus = {n.target.id: n.value for n in ast.walk(fi.node) if isinstance(n, ast.NamedExpr) and isinstance(n.target, ast.Name)}

    def is_point(e):
        """e is <res>.x or a local bound only to it (by assignment or by a walrus)"""
        if src(e) == f"{res}.x":
            return True
        if isinstance(e, ast.Name):
            vals = [v for v in assigns.get(e.id, []) if isinstance(v, ast.AST)] + ([walrus[e.id]] if e.id in walrus else [])
            return bool(vals) and all(src(v) == f"{res}.x" for v in vals)
        return False

    def verdict3(key, value, i, v, seq):
        """(True | False | None): False only for a part that is recognisably wrong"""
        flags = []
        # key
        if src(key) in (v, f"{v}.name"):
            flags.append(True)
        elif src(key) in (i, f"str({i})") or (isinstance(key, ast.Subscript) and src(key.slice) != i):
            flags.append(False)
        else:
            flags.append(None)
        # value: <point>[i] -- a point that was clipped / rounded / projected after the backend returned it is another
        # point than the one `fun` was evaluated at (unless the reported objective is re-evaluated)
        for n in ast.walk(value):
            if isinstance(n, ast.Subscript) and isinstance(n.value, ast.Name) and not is_point(n.value):
                defs = [v_ for v_ in assigns.get(n.value.id, []) if isinstance(v_, ast.AST)]
                moved = [v_ for v_ in defs if isinstance(v_, ast.Call) and (dotted(v_.func) or "") in ("np.clip", "np.round", "np.around", "np.rint", "np.maximum", "np.minimum", "np.where", "np.floor", "np.ceil", "np.trunc")
                         and any(is_point(a_) or (isinstance(a_, ast.Name) and a_.id == n.value.id) or (isinstance(a_, ast.Call) and a_.args and is_point(a_.args[0])) for a_ in v_.args)]
                from_point = any(is_point(v_) or (isinstance(v_, ast.Call) and v_.args and is_point(v_.args[0]) and (dotted(v_.func) or "") in ("np.asarray", "np.array", "np.copy")) for v_ in defs)
                if moved and from_point and src(n.slice) == i and not reevaluates:
                    return False, f"the reported values come from `{n.value.id}`, the backend's point after `{src(moved[0])[:50]}`, while objective_value is the backend's fun at the unmodified point: the two no longer describe the same point"
        subs = [n for n in ast.walk(value) if isinstance(n, ast.Subscript) and is_point(n.value)]
        if any(src(n.slice) == i for n in subs):
            flags.append(True)
        elif subs:
            flags.append(False)          # the point is indexed, but not by the loop index
        else:
            flags.append(None)
        # the enumerated list
        if column_list(seq):
            flags.append(True)
        elif seq.startswith(("sorted(", "reversed(", "set(", "list(set(", "list(reversed(")) or seq.endswith("[::-1]"):
            flags.append(False)
        else:
            flags.append(None)
        if False in flags:
            return False
        return True if all(f is True for f in flags) else None

    def indexed_point(e, i):
        for n in ast.walk(e):
            if isinstance(n, ast.Subscript) and src(n.slice) == i and is_point(n.value):
                return True
        return False

    def column_list(seq_src):
        """the enumerated list is the one that defines the columns"""
        if backend == "linprog":
            return seq_src.endswith(".variables")
        feeds_cols = any(dotted(c.func) and "cache" in dotted(c.func) and any(src(a) == seq_src for a in c.args) for c in calls(fi.node))
        src_ok = any(src(x).endswith(".variables") for x in assigns.get(seq_src, []) if isinstance(x, ast.AST))
        return feeds_cols and src_ok

    comps, seen = [], set()

    def collect(e, depth=0):
        if depth > 4 or id(e) in seen:
            return
        seen.add(id(e))
        if isinstance(e, ast.DictComp):
            comps.append(e)
        elif isinstance(e, ast.IfExp):
            collect(e.body, depth + 1)
            collect(e.orelse, depth + 1)
        elif isinstance(e, ast.Name):
            for v in assigns.get(e.id, []):
                if isinstance(v, ast.AST):
                    collect(v, depth + 1)

    collect(vexpr)
    for comp in comps:
        g = comp.generators[0]
        if not (len(comp.generators) == 1 and not g.ifs and isinstance(g.iter, ast.Call) and dotted(g.iter.func) == "enumerate" and isinstance(g.target, ast.Tuple) and len(g.target.elts) == 2):
            return None, "values are built by a comprehension this rule cannot read"
        i, v = [src(e) for e in g.target.elts]
        seq = src(g.iter.args[0])
        ok = verdict3(comp.key, comp.value, i, v, seq)
        if isinstance(ok, tuple):
            return ok
        if ok is None:
            return None, f"values are built as {{{src(comp.key)}: {src(comp.value)[:40]}}} over {seq}; not every part is readable"
        return ok, (f"values[name of variable i] = {res}.x[i] over enumerate({seq}), the list that defines the backend's columns" if ok else
                    f"values are built as {{{src(comp.key)}: {src(comp.value)[:40]}}} over {seq}: key / index / list do not line up with the backend columns")
    if isinstance(vexpr, ast.Name):
        for n in walk_local(fi.node, include_self=False):
            if isinstance(n, ast.For) and isinstance(n.iter, ast.Call) and dotted(n.iter.func) == "enumerate" and isinstance(n.target, ast.Tuple) and len(n.target.elts) == 2:
                i, v = [src(e) for e in n.target.elts]
                for st in n.body:
                    if isinstance(st, ast.Assign) and isinstance(st.targets[0], ast.Subscript) and src(st.targets[0].value) == vexpr.id:
                        seq = src(n.iter.args[0])
                        ok = verdict3(st.targets[0].slice, st.value, i, v, seq)
                        if isinstance(ok, tuple):
                            return ok
                        if ok is None:
                            return None, f"values[{src(st.targets[0].slice)}] = {src(st.value)[:40]} over {seq}; not every part is readable"
                        return ok, (f"values[name] = {res}.x[i] over enumerate({seq})" if ok else f"values[{src(st.targets[0].slice)}] = {src(st.value)[:40]} over {seq} does not line up with the backend columns")
    return None, "construction of the values dictionary not recognised"


def _flows_to_backend(fi, name):
    """The flipped name is later handed to a compiler / backend (compile_*, linprog kwargs, 'c' entry)."""
    for c in calls(fi.node):
        f = dotted(c.func) or ""
        if f.startswith("compile_") and any(name in {x.id for x in ast.walk(a) if isinstance(x, ast.Name)} for a in c.args):
            return True
    for n in walk_local(fi.node, include_self=False):
        if isinstance(n, ast.Dict):
            for k, v in zip(n.keys, n.values):
                if isinstance(k, ast.Constant) and k.value == "c" and src(v) == name:
                    return True
    return False


def _flows_to_reported(fi, name):
    for c in solution_calls(fi):
        for k in c.keywords:
            if k.arg == "objective_value" and src(k.value) == name:
                return True
    return False
