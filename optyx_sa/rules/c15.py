"""C15 -- results do not depend on depth or association of the expression tree.

R15.1 each iterative walker handles every node kind and every operator string its recursive sibling handles
R15.2 arm by arm the siblings build the same result (derivative terms via the rule-term normal form; degree forms)
R15.3 stack discipline of the post-order machines (push order <-> pop order)
R15.4 depth-safe entry points: user trees are traversed through the depth-switching entries; the switches compare
      in the same direction and the thresholds are equal
R15.5 no except clause around a traversal swallows RecursionError silently
"""

from __future__ import annotations

import ast

from ..astutil import dotted, src, walk_local, local_assignments, calls, dominating_guards
from ..dispatch import dispatcher, ops_handled, unary_ops, binary_ops, exact_arm
from ..report import AnalysisError, Frag
from .c01 import evaluator_builders, _child_roles, arm_env

PAIRS = [
    ("gradient", "optyx.core.autodiff:_gradient_cached", "optyx.core.autodiff:_gradient_iterative"),
    ("degree", "optyx.analysis:_compute_degree_impl", "optyx.analysis:_compute_degree_iterative"),
]


def check(prog, rep):
    kinds = prog.expression_kinds()
    (rec, drec), (it, dit) = evaluator_builders(prog)
    pairs = [("evaluator", rec, drec, it, dit)]
    for label, rq, iq in PAIRS:
        r, i = prog.func(rq), prog.func(iq)
        pairs.append((label, r, dispatcher(prog, r), i, dispatcher(prog, i)))
    rep.saw("sibling pairs", [f"{p[1].name} / {p[3].name}" for p in pairs])

    # registry-first: kinds with a registered gradient rule are handled before any arm in both gradient walkers
    registered = registered_gradient_kinds(prog)
    rep.saw("kinds with a registered gradient rule", sorted(registered))

    for label, r, dr, i, di in pairs:
        # ---- kinds
        for k in kinds:
            hr = dr.handler(prog, k)
            hi = di.handler(prog, k)
            if label == "gradient" and k in registered:
                ok_r = _registry_first(r)
                ok_i = _registry_first(i, in_loop=True)
                rep.ob("R15.1", f"{i.name}", ok_r and ok_i, f"{k}: both walkers consult the gradient registry before their own arms" if ok_r and ok_i else f"{k}: the {'iterative' if not ok_i else 'recursive'} walker does not consult the gradient registry for every node it visits", loc=i.loc, detail=f"kind:{k}")
                continue
            if hr is None:
                continue  # not supported on shallow trees either (C01/C02/C04 report that)
            ok = hi is not None or _default_is_conservative(label, di)
            if not ok:
                from .common import helper_closure
                tested = False
                for g in helper_closure(prog, i, depth=1):
                    if g is r or g is i:
                        continue
                    for n_ in ast.walk(g.node):
                        if isinstance(n_, ast.Call) and dotted(n_.func) == "isinstance" and len(n_.args) == 2:
                            ks_ = n_.args[1].elts if isinstance(n_.args[1], ast.Tuple) else [n_.args[1]]
                            if any((dotted(k_) or "").split(".")[-1] == k for k_ in ks_):
                                tested = True
                if tested:
                    rep.undecided(f"{i.name}: {k} has no arm in the walker's own dispatch chain but is tested for in a helper it calls; not decided")
                    continue
                # the kind is named somewhere in the walker (a table, a tuple bound elsewhere, a pattern): not an arm this
                # rule reads, but not an absence either
                if any((isinstance(n_, ast.Name) and n_.id == k) or (isinstance(n_, ast.Attribute) and n_.attr == k) for n_ in ast.walk(i.node) if not isinstance(getattr(n_, "_parent", None), (ast.ImportFrom, ast.alias))):
                    rep.undecided(f"{i.name}: {k} is mentioned in the walker but not in an isinstance arm of its dispatch chain; whether it is handled is not decided")
                    continue
            rep.ob("R15.1", f"{i.name}", ok, robust=True, msg=
                   f"{k}: handled by both siblings" if hi is not None else (f"{k}: handed to the recursive sibling / conservative default ({label})" if ok else
                   f"{k} is handled by {r.name} (line {hr.lineno}) but {i.name} has no arm for it: the same formula works on a shallow tree and raises once the tree is deep enough to switch algorithms"),
                   loc=f"{i.module.rel}:{hi.lineno if hi is not None else i.node.lineno}", detail=f"kind:{k}")
        # ---- operator strings
        for kind, ops in (("BinaryOp", binary_ops(prog)), ("UnaryOp", unary_ops(prog))):
            ar, ai = exact_arm(dr, prog, kind), exact_arm(di, prog, kind)
            if ar is None or ai is None:
                continue
            hr_, hi_ = ops_handled(ar.body), ops_handled(ai.body)
            generic_r = not hr_ and kind == "UnaryOp"
            generic_i = not hi_ and kind == "UnaryOp"
            for op in ops:
                in_r = op in hr_ or generic_r or (label == "degree")
                in_i = op in hi_ or generic_i or (label == "degree")
                if not in_r:
                    continue
                if not in_i and not hi_:
                    rep.undecided(f"{i.name}: the {kind} arm does not dispatch on operator literals in a form this rule reads; operator coverage not decided")
                    break
                rep.ob("R15.1", f"{i.name}", in_i, robust=True, msg=
                       f"{kind} {op!r}: handled by both siblings" if in_i else
                       f"{kind} operator {op!r} has a rule in {r.name} but none in {i.name}: a deep chain containing it raises although the shallow one works",
                       loc=f"{i.module.rel}:{ai.lineno}", detail=f"op:{op}")

    # ------------------------------------------------------------------ R15.2 degree: arm forms agree (see C04 for soundness)
    from .c04 import degree_forms

    fr = degree_forms(prog, prog.func(PAIRS[1][1]))
    fi_ = degree_forms(prog, prog.func(PAIRS[1][2]))
    for key in sorted(set(fr) | set(fi_)):
        a, b = fr.get(key), fi_.get(key)
        if a is None or b is None:
            continue
        if b == "DELEGATE":
            b = a  # the iterative analyser hands this kind to the recursive one
        if a != b and ("?" in a or "?" in b):
            # an answer expression the form table does not know (e.g. computed through a new helper): the two texts
            # differ, which says nothing about the values
            rep.undecided(f"degree[{key}]: answer form not recognised ({a} / {b}); sibling agreement not decided on this view")
            continue
        rep.ob("R15.2", f"degree[{key}]", a == b, f"both analysers answer {a}" if a == b else f"recursive analyser answers {a}, iterative analyser answers {b}: the classification of one formula changes when the tree gets deep", loc=prog.func(PAIRS[1][2]).loc, detail="form", robust=False)   # the form table reads one answer site per kind; merged / table-driven arms are not followed

    # ------------------------------------------------------------------ R15.2 gradient: arm terms agree
    try:
        from .c02 import gradient_arm_terms
    except ImportError:
        gradient_arm_terms = None
    if gradient_arm_terms is not None:
        tr = gradient_arm_terms(prog, prog.func(PAIRS[0][1]))
        ti = gradient_arm_terms(prog, prog.func(PAIRS[0][2]))
        for key in sorted(k for k in set(tr) & set(ti) if not k.endswith('@line') and not k.startswith('@')):
            same = tr[key].eq(ti[key])
            rep.ob("R15.2", f"gradient[{key}]", same, "recursive and iterative walker build the same derivative term" if same else f"the two walkers build different derivative terms for {key}", loc=prog.func(PAIRS[0][2]).loc, detail="term", robust=True)

    # ------------------------------------------------------------------ R15.2 leaves: sibling arms are the same code modulo names
    import re
    for label, r, dr, i, di in pairs:
        if label == "degree":
            continue
        for k in ("Constant", "Parameter", "Variable"):
            ar, ai = exact_arm(dr, prog, k), exact_arm(di, prog, k)
            if ar is None or ai is None or k not in ar.kinds:
                continue
            if k not in ai.kinds:
                rep.ob("R15.2", f"{label}[{k}]", False, f"{r.name} has its own arm for {k} but {i.name} handles it in the arm for {ai.kinds}: the deep-tree path treats {k} nodes differently from the shallow path", loc=f"{i.module.rel}:{ai.lineno}", detail="leaf")
                continue
            a, b = _leaf_sig(ar, dr.subject), _leaf_sig(ai, di.subject)
            why = None
            if k == "Variable":
                ra, rb = _input_reads(ar), _input_reads(ai)
                if ra and rb and ra != rb and {"item"} in (ra, rb) and {"subscript"} in (ra, rb):
                    py, npy = (r.name, i.name) if ra == {"item"} else (i.name, r.name)
                    why = (f"{npy} reads a variable as `x[i]` (a NumPy scalar: 1/0 is inf, a negative base to a fractional power is nan, overflow is inf), {py} as `x.item(i)` (a Python float: "
                           f"ZeroDivisionError, a complex number, OverflowError): the same formula at the same point evaluates differently depending on which builder the tree's depth selects")
            if why:
                rep.ob("R15.2", f"{label}[{k}]", False, why, loc=f"{i.module.rel}:{ai.lineno}", detail="leaf-contradiction", robust=True)
                continue
            if a != b:
                # positive contradictions between two arms that are both plain code (no helper decides anything):
                pa, pb = _leaf_parts(ar, dr.subject), _leaf_parts(ai, di.subject)
                why = None
                if pa["plain"] and pb["plain"]:
                    if k == "Parameter" and ("value" in pa["build"]) != ("value" in pb["build"]) and ("value" in pa["call"]) != ("value" in pb["call"]):
                        late, early = (r.name, i.name) if "value" in pa["call"] else (i.name, r.name)
                        why = f"{late} reads the parameter's value when the compiled callable runs, {early} reads it while building: the same formula honours Parameter.set() on one path and ignores it on the other"
                    elif k == "Variable" and pa["identity"] != pb["identity"]:
                        byid, byname = (r.name, i.name) if pa["identity"] else (i.name, r.name)
                        why = f"{byid} decides `is this the variable?` by object identity, {byname} by name: for two Variable objects of one name the answer depends on which walker the tree's depth selects"
                    elif sorted(map(repr, pa["consts"])) != sorted(map(repr, pb["consts"])) and pa["consts"] and pb["consts"] and len(pa["consts"]) == len(pb["consts"]):
                        why = f"{r.name} answers with constants {pa['consts']}, {i.name} with {pb['consts']} for a {k} leaf"
                if why:
                    rep.ob("R15.2", f"{label}[{k}]", False, why, loc=f"{i.module.rel}:{ai.lineno}", detail="leaf-contradiction", robust=True)
                    continue
            rep.ob("R15.2", f"{label}[{k}]", a == b, f"both siblings treat {k} leaves alike ({a[:60]})" if a == b else f"the siblings treat {k} leaves differently: {r.name}: {a[:70]}  vs  {i.name}: {b[:70]}", loc=f"{i.module.rel}:{ai.lineno}", detail="leaf")

    # ------------------------------------------------------------------ R15.2 siblings consult the same node state
    def node_attrs(f, subj):
        out = set()
        for n in walk_local(f.node):
            if isinstance(n, ast.Attribute) and isinstance(n.value, ast.Name) and n.value.id == subj and isinstance(n.ctx, ast.Load):
                out.add(n.attr)
            if isinstance(n, ast.Call) and dotted(n.func) in ("getattr", "hasattr") and len(n.args) >= 2 and isinstance(n.args[0], ast.Name) and n.args[0].id == subj and isinstance(n.args[1], ast.Constant):
                out.add(n.args[1].value)
        return out

    for label, r, dr, i, di in pairs:
        extra = {a for a in node_attrs(i, di.subject) - node_attrs(r, dr.subject) if a.startswith("_") and a not in ("_numpy_func", "_variables", "_expressions")}
        rep.ob("R15.2", f"{label}[node-state]", not extra, f"{i.name} reads the same node attributes as {r.name}" if not extra else f"{i.name} consults private node state {sorted(extra)} that {r.name} does not: the deep-tree answer can depend on what was computed earlier, not only on the formula", loc=i.loc, detail="same-node-state")

    # ------------------------------------------------------------------ R15.3 stack discipline
    ba = exact_arm(dit, prog, "BinaryOp")
    roles = _child_roles(ba, arm_env(ba), dit.subject, it.name, "iterative", prog=prog)
    if roles.get("__ok__") is False and roles.get("__positive__"):
        # both pushes and both pops were read and the names say which operand each result is taken for: a positive finding
        rep.ob("R15.3", it.name, False, roles["__why__"], loc=f"{it.module.rel}:{ba.lineno}", detail="push/pop", robust=True)
    else:
        rep.pin("post-order machines", "R15.3", it.name, roles.get("__ok__", False), roles.get("__why__", "push/pop pattern not recognised"), loc=f"{it.module.rel}:{ba.lineno}", detail="push/pop")
    deg_it = prog.func(PAIRS[1][2])
    ok, why = _degree_stack(deg_it)
    rep.pin("post-order machines", "R15.3", deg_it.name, ok, why, loc=deg_it.loc, detail="push/pop")
    g_it = prog.func(PAIRS[0][2])
    ok, why = _gradient_results_by_id(g_it)
    rep.pin("post-order machines", "R15.3", g_it.name, ok, why, loc=g_it.loc, detail="results-keyed-by-node")

    # ------------------------------------------------------------------ R15.4
    thresholds = {}
    for m in prog.modules.values():
        for n in m.tree.body:
            if isinstance(n, ast.Assign) and isinstance(n.targets[0], ast.Name) and n.targets[0].id == "_RECURSION_THRESHOLD" and isinstance(n.value, ast.Constant):
                thresholds[m.name] = n.value.value
    if len(thresholds) < 2:
        raise AnalysisError("recursion thresholds not found")
    rep.ob("R15.4", "thresholds", len(set(thresholds.values())) == 1, f"{len(thresholds)} copies of the switch threshold are equal ({sorted(set(thresholds.values()))})" if len(set(thresholds.values())) == 1 else f"switch thresholds differ between modules: {thresholds}", detail="equal", loc=None)
    nsw = 0
    for fi in prog.functions.values():
        for n in walk_local(fi.node):
            if isinstance(n, ast.Compare) and len(n.ops) == 1 and src(n.comparators[0]) == "_RECURSION_THRESHOLD":
                nsw += 1
                # which branch takes the iterative sibling?
                p = getattr(n, "_parent", None)
                if not isinstance(p, ast.If):
                    raise AnalysisError(f"{fi.name}: threshold comparison outside an if")
                body_iter = "iterative" in src(p.body)
                else_iter = "iterative" in src(p.orelse) or "iterative" in src(_after(p))
                if isinstance(n.ops[0], (ast.GtE, ast.Gt)):
                    ok = body_iter
                elif isinstance(n.ops[0], (ast.Lt, ast.LtE)):
                    ok = else_iter and not body_iter
                else:
                    ok = False
                strict_ok = isinstance(n.ops[0], (ast.GtE, ast.Lt))
                rep.ob("R15.4", f"{fi.name}", ok and strict_ok,
                       f"depth {src(n.ops[0]) if False else ('>=' if isinstance(n.ops[0], ast.GtE) else '<')} threshold selects the iterative/recursive sibling consistently" if ok and strict_ok else
                       f"`{src(n)}` selects the wrong sibling or uses a different boundary than the other switches",
                       loc=f"{fi.module.rel}:{n.lineno}", detail="switch-direction")
    if nsw < 4:
        raise AnalysisError(f"only {nsw} depth switches found")
    # entry points: recursive traversal methods must not be called directly on user trees outside the switches
    # functions reached only from the recursive workers (which sit behind their switches) are behind the switch too
    behind_switch = {"_build_evaluator", "_build_vector_evaluator", "_compute_degree_impl", "_compute_degree_cached", "_gradient_cached"}
    callers = {}
    for g in prog.functions.values():
        for c_ in calls(g.node):
            nm_ = dotted(c_.func)
            if nm_ and "." not in nm_:
                callers.setdefault(nm_, set()).add(g.name)
    grew_ = True
    while grew_:
        grew_ = False
        for nm_, who in callers.items():
            if nm_ not in behind_switch and nm_.startswith("_") and who and who <= behind_switch | {nm_}:
                behind_switch.add(nm_)
                grew_ = True
    for fi in prog.functions.values():
        if fi.name == "get_variables" or fi.module.name not in ("optyx.problem", "optyx.analysis", "optyx.solvers.scipy_solver", "optyx.solvers.lp_solver", "optyx.constraints", "optyx.core.autodiff", "optyx.core.compiler", "optyx.core.expressions"):
            continue
        for c in calls(fi.node):
            if isinstance(c.func, ast.Attribute) and c.func.attr == "get_variables" and not c.args:
                recv = src(c.func.value)
                guarded = any("_RECURSION_THRESHOLD" in src(t) for t, _p in dominating_guards(c)) or any("_RECURSION_THRESHOLD" in src(t) for t, _p in _prior_returns(c, fi))
                in_walker = fi.name == "_get_variables_iterative"
                if guarded or in_walker:
                    rep.ob("R15.4", f"{fi.qual.split(':')[1]}", True, f"{recv}.get_variables() is reached only below the depth threshold / from the iterative walker", loc=f"{fi.module.rel}:{c.lineno}", detail=f"call:{recv}", trivial=True)
                    continue
                if fi.name in behind_switch:
                    rep.ob("R15.4", f"{fi.qual.split(':')[1]}", True, f"{recv}.get_variables() is called from {fi.name}, which is only reached from a recursive worker behind its depth switch: the worker already recurses over the same tree", loc=f"{fi.module.rel}:{c.lineno}", detail=f"call:{recv}", trivial=True)
                    continue
                what = _user_tree(fi, c.func.value)
                if what is None:
                    rep.undecided(f"{fi.qual.split(':')[1]}: `{recv}.get_variables()` (line {c.lineno}) is not behind a depth switch; whether `{recv}` can be a deep user-built tree is not decided")
                    continue
                rep.ob("R15.4", f"{fi.qual.split(':')[1]}", False,
                       f"{recv}.get_variables() recurses over a user-supplied tree ({what}) without the depth switch (get_all_variables): a term-by-term accumulated {recv.split('.')[0]} deeper than the interpreter's recursion limit raises RecursionError",
                       loc=f"{fi.module.rel}:{c.lineno}", detail=f"call:{recv}")
    # degree / compile / gradient recursive workers are called only from their switches
    for worker, allowed in (("_compute_degree_impl", {"_compute_degree_cached", "_compute_degree_impl", "_compute_degree_iterative"}), ("_compute_degree_cached", {"compute_degree"}),
                            ("_gradient_cached", {"gradient", "_gradient_cached"}), ("_build_evaluator", {"_compile_cached", "_build_evaluator", "_build_evaluator_iterative", "_build_vector_evaluator"})):
        # a private helper called only from functions behind the switch is itself behind the switch
        allowed = set(allowed)
        grew = True
        while grew:
            grew = False
            for fi in prog.functions.values():
                if fi.name in allowed or not fi.name.startswith("_") or fi.cls is not None:
                    continue
                if not any(dotted(c.func) == worker for c in calls(fi.node)):
                    continue
                callers = {g.name for g in prog.functions.values() if g is not fi and any(isinstance(n, ast.Name) and n.id == fi.name for n in ast.walk(g.node))}
                exported = any(isinstance(n, (ast.alias,)) and n.name == fi.name for m in prog.modules.values() for n in ast.walk(m.tree))
                if callers and callers <= allowed and not exported:
                    allowed.add(fi.name)
                    grew = True
        def behind(fi):
            # the function itself, or a function it is nested in, is behind the switch
            p_ = fi
            while p_ is not None:
                if p_.name in allowed:
                    return True
                p_ = p_.parent
            return False

        for fi in prog.functions.values():
            for c in calls(fi.node):
                if dotted(c.func) == worker and not behind(fi):
                    rep.ob("R15.4", fi.qual.split(":")[1], False, f"calls the recursive worker {worker} directly, bypassing the depth switch", loc=f"{fi.module.rel}:{c.lineno}", detail=f"direct:{worker}")
        rep.ob("R15.4", worker, True, f"{worker} is only called from {sorted(allowed)}", detail="only-from-switch", loc=None)

    # ------------------------------------------------------------------ R15.5
    nh = 0
    for fi in prog.functions.values():
        for n in walk_local(fi.node):
            if isinstance(n, ast.ExceptHandler):
                catches = src(n.type) if n.type is not None else "BaseException"
                broad = any(x in catches for x in ("RecursionError", "RuntimeError", "BaseException")) or n.type is None or catches == "Exception"
                if not broad:
                    continue
                tr = getattr(n, "_parent", None)
                traversal = any(isinstance(c, ast.Call) and (dotted(c.func) or "").split(".")[-1] in ("get_variables", "get_all_variables", "compute_degree", "gradient", "compile_expression", "_gradient_cached", "_compute_degree_impl") for s in tr.body for c in ast.walk(s))
                if not traversal:
                    continue
                nh += 1
                silent = all(isinstance(s, (ast.Pass, ast.Continue)) or (isinstance(s, ast.Expr) and isinstance(s.value, ast.Constant)) for s in n.body)
                rep.ob("R15.5", fi.qual.split(":")[1], not silent,
                       f"`except {catches}` around a traversal re-raises or reports" if not silent else
                       f"`except {catches}: pass` around a tree traversal: when the recursion limit is hit the partial result is used as if it were complete",
                       loc=f"{fi.module.rel}:{n.lineno}", detail=f"except:{catches}")
    rep.ob("R15.5", "package", True, f"{nh} broad handler(s) around traversals inspected", detail="inventory", trivial=True)
    # a RecursionError fallback that restarts into the buffer the failed attempt was filling: everything the recursive
    # pass had already added before it overflowed is added a second time by the fallback
    for fi in prog.functions.values():
        for tr in walk_local(fi.node):
            if not isinstance(tr, ast.Try):
                continue
            for h in tr.handlers:
                catches = src(h.type) if h.type is not None else ""
                if "RecursionError" not in catches:
                    continue
                def passed(stmts):
                    out = set()
                    for st in stmts:
                        for c in ast.walk(st):
                            if isinstance(c, ast.Call):
                                out |= {a.id for a in list(c.args) + [k.value for k in c.keywords] if isinstance(a, ast.Name)}
                    return out
                shared = passed(tr.body) & passed(h.body)
                la = local_assignments(fi.node)
                bufs = []
                for nm in sorted(shared):
                    vals = [v for v in la.get(nm, []) if isinstance(v, ast.AST)]
                    mutable = any(isinstance(v, (ast.List, ast.Dict, ast.Set)) or (isinstance(v, ast.Call) and (dotted(v.func) or "").split(".")[-1] in ("zeros", "empty", "ones", "full", "list", "dict", "set", "zeros_like", "defaultdict")) for v in vals)
                    reset = any(isinstance(st, ast.Assign) and any(isinstance(t, ast.Name) and t.id == nm for t in st.targets) for st in h.body) or any(
                        isinstance(c, ast.Call) and isinstance(c.func, ast.Attribute) and isinstance(c.func.value, ast.Name) and c.func.value.id == nm and c.func.attr in ("fill", "clear") for st in h.body for c in ast.walk(st)) or any(
                        isinstance(st, ast.Assign) and any(isinstance(t, ast.Subscript) and isinstance(t.value, ast.Name) and t.value.id == nm and isinstance(t.slice, (ast.Slice, ast.Constant)) for t in st.targets) for st in h.body)
                    if mutable and not reset:
                        bufs.append(nm)
                if bufs:
                    rep.ob("R15.5", fi.qual.split(":")[1], False,
                           f"the RecursionError fallback at line {h.lineno} is handed `{bufs[0]}`, the same buffer the recursive attempt in the try block was filling, without clearing it first: whatever the recursive pass had accumulated before the "
                           f"overflow is counted again, so a deep tree gets different coefficients than the same formula written shallow",
                           loc=f"{fi.module.rel}:{h.lineno}", detail=f"fallback-reuses-buffer:{bufs[0]}", robust=True)

    rep.expect_min("R15.1", 60)
    rep.expect_min("R15.3", 3)
    rep.expect_min("R15.4", 8)
    rep.explanation = (
        "Sibling cross-check of the recursive and iterative implementations (evaluator, gradient, degree): coverage of "
        "kinds and operator strings, equality of the per-arm results (derivative terms in the exact rational normal form, "
        "degree forms), push/pop discipline of the post-order machines, direction and equality of the four depth switches, "
        "and absence of swallowed RecursionError. That no RecursionError occurs *below* the threshold depends on the "
        "interpreter's frame budget and is not decided."
    )
    rep.note("the depth estimator follows the left spine only (by design); right-deep trees are outside the property's 'term by term accumulation'")


def _leaf_sig(arm, subj):
    """Signature of a leaf arm that is insensitive to local names: which attributes of the node are read where
    (build time vs inside the closure), which comparisons are made, which constants are produced."""
    build, call_time, cmps, consts = set(), set(), set(), []
    lam_nodes = set()
    for st in arm.body:
        for n in ast.walk(st):
            if isinstance(n, ast.Lambda):
                for x in ast.walk(n.body):
                    lam_nodes.add(id(x))
    aliases = {subj}
    for st in arm.body:
        for n in ast.walk(st):
            if isinstance(n, ast.Assign) and isinstance(n.targets[0], ast.Name) and isinstance(n.value, ast.Name) and n.value.id in aliases:
                aliases.add(n.targets[0].id)
    lam_bound = set()
    for st in arm.body:
        for n in ast.walk(st):
            if isinstance(n, ast.Lambda):
                for arg, dv in zip(n.args.args[::-1], n.args.defaults[::-1]):
                    if isinstance(dv, ast.Name) and dv.id in aliases:
                        lam_bound.add(arg.arg)
    for st in arm.body:
        for n in ast.walk(st):
            if isinstance(n, ast.Attribute) and isinstance(n.value, ast.Name):
                if n.value.id in aliases and id(n) not in lam_nodes:
                    build.add(n.attr)
                if id(n) in lam_nodes and (n.value.id in lam_bound or n.value.id in aliases):
                    call_time.add(n.attr)
            if isinstance(n, ast.Compare):
                cmps.add(type(n.ops[0]).__name__ + ":" + ",".join(sorted(x.attr if isinstance(x, ast.Attribute) else "obj" for x in [n.left, n.comparators[0]])))
            if isinstance(n, ast.Call) and dotted(n.func) == "Constant" and n.args and isinstance(n.args[0], ast.Constant):
                consts.append(n.args[0].value)
    return f"build-time reads {sorted(build)}, call-time reads {sorted(call_time)}, tests {sorted(cmps)}, constants {consts}"


def _user_tree(fi, node):
    """A description when `node` positively denotes an expression tree the user built (a problem's objective, a
    constraint's expression, a constraint of the problem's list), read through single-assignment locals; else None."""
    seen = 0
    while isinstance(node, ast.Name) and seen < 4:
        seen += 1
        defs = [x for x in walk_local(fi.node) if isinstance(x, (ast.Assign, ast.AnnAssign)) and x.value is not None
                and any(isinstance(t, ast.Name) and t.id == node.id for t in (x.targets if isinstance(x, ast.Assign) else [x.target]))]
        loops = [x for x in walk_local(fi.node) if isinstance(x, (ast.For, ast.comprehension)) and isinstance(x.target, ast.Name) and x.target.id == node.id]
        if len(defs) == 1 and not loops:
            node = defs[0].value
            continue
        if loops and not defs and all(src(l.iter).endswith(("constraints", "_constraints")) for l in loops):
            return f"an element of `{src(loops[0].iter)}`"
        return None
    if isinstance(node, ast.Attribute) and node.attr in ("expr", "objective", "_objective"):
        return f"`{src(node)}`"
    return None


def _input_reads(arm):
    """How the closures built in a leaf arm read the point they are called with: {"subscript"} for `x[i]`,
    {"item"} for `x.item(i)`; anything else (a conversion, a helper) adds "other"."""
    out = set()
    for st in arm.body:
        for lam in ast.walk(st):
            if not isinstance(lam, ast.Lambda) or not lam.args.args:
                continue
            x = lam.args.args[0].arg
            parents = {}
            for n in ast.walk(lam.body):
                for c in ast.iter_child_nodes(n):
                    parents[id(c)] = n
            for n in ast.walk(lam.body):
                if isinstance(n, ast.Name) and n.id == x:
                    p = parents.get(id(n))
                    if isinstance(p, ast.Subscript) and p.value is n:
                        out.add("subscript" if parents.get(id(p)) is None else "other")
                    elif isinstance(p, ast.Attribute) and p.attr == "item" and isinstance(parents.get(id(p)), ast.Call) and parents.get(id(parents.get(id(p)))) is None:
                        out.add("item")
                    else:
                        out.add("other")
    return out


def _leaf_parts(arm, subj):
    """Facts about a leaf arm for the contradiction rules: attributes of the node read while building / inside the
    closure, whether the node is compared by identity, constants produced, and whether the arm is plain code (every
    call is a constructor, a builtin or a container method -- nothing is decided elsewhere)."""
    lam_nodes = {id(x) for st in arm.body for n in ast.walk(st) if isinstance(n, ast.Lambda) for x in ast.walk(n.body)}
    aliases = {subj}
    for st in arm.body:
        for n in ast.walk(st):
            if isinstance(n, ast.Assign) and isinstance(n.targets[0], ast.Name) and isinstance(n.value, ast.Name) and n.value.id in aliases:
                aliases.add(n.targets[0].id)
    lam_bound = {arg.arg for st in arm.body for n in ast.walk(st) if isinstance(n, ast.Lambda) for arg, dv in zip(n.args.args[::-1], n.args.defaults[::-1]) if isinstance(dv, ast.Name) and dv.id in aliases}
    build, call, consts = set(), set(), []
    identity = False
    plain = True
    for st in arm.body:
        for n in ast.walk(st):
            if isinstance(n, ast.Attribute) and isinstance(n.value, ast.Name):
                if n.value.id in aliases and id(n) not in lam_nodes:
                    build.add(n.attr)
                if id(n) in lam_nodes and (n.value.id in lam_bound or n.value.id in aliases):
                    call.add(n.attr)
            if isinstance(n, ast.Compare) and isinstance(n.ops[0], (ast.Is, ast.IsNot)) and any(isinstance(x, ast.Name) and x.id in aliases for x in [n.left, n.comparators[0]]):
                identity = True
            if isinstance(n, ast.Call):
                d = dotted(n.func) or ""
                if d == "Constant" and n.args and isinstance(n.args[0], ast.Constant):
                    consts.append(n.args[0].value)
                if not (d in ("Constant", "float", "int", "isinstance", "len") or (isinstance(n.func, ast.Attribute) and n.func.attr in ("append", "pop", "get", "extend"))):
                    plain = False
            if isinstance(n, (ast.FunctionDef, ast.Try, ast.With)):
                plain = False
    return {"build": build, "call": call, "identity": identity, "consts": consts, "plain": plain}


def registered_gradient_kinds(prog):
    out = set()
    for fi in prog.functions.values():
        for d in getattr(fi.node, "decorator_list", []):
            if isinstance(d, ast.Call) and dotted(d.func) == "register_gradient" and d.args:
                out.add(src(d.args[0]))
    return out


def _registry_first(fi, in_loop=False):
    """`if has_gradient_rule(X): ... apply_gradient_rule(X, wrt)` precedes the isinstance arms."""
    body = fi.node.body
    if in_loop:
        loops = [n for n in walk_local(fi.node) if isinstance(n, ast.While)]
        if not loops:
            return False
        body = loops[0].body
    for st in body:
        if isinstance(st, ast.If) and "has_gradient_rule" in src(st.test) and "apply_gradient_rule" in src(st.body):
            return True
        if isinstance(st, ast.If) and isinstance(st.test, ast.Call) and dotted(st.test.func) == "isinstance":
            return False
    return False


def _default_is_conservative(label, disp):
    if label == "evaluator":
        # unknown (non-deep) node kinds are handed to the recursive sibling
        return any(isinstance(c, ast.Call) and dotted(c.func) == "_build_evaluator" and c.args and src(c.args[0]) == disp.subject for st in disp.default for c in ast.walk(st))
    if label == "degree":
        s = src(disp.default)
        return "append(None)" in s or "return None" in s
    return False


def _after(ifnode):
    p = getattr(ifnode, "_parent", None)
    body = getattr(p, "body", [])
    if ifnode in body:
        return body[body.index(ifnode) + 1:]
    return []


def _prior_returns(node, fi):
    from ..astutil import preceding_exit_guards

    return preceding_exit_guards(node)


def _degree_stack(fi):
    """Phase machine: phase 0 pushes (self,1) then left; phase 1 pops the LEFT result and pushes (self,2,left) then
    right; phase 2 pops the RIGHT result and combines with the carried left degree."""
    s = src(fi.node)
    p0 = Frag(s, "stack.append((node, 1, None, None))", "stack.append((node.left, 0, None, None))")
    p1 = Frag(s, "left_result = result_stack.pop()", "stack.append((node, 2, left_result, None))", "stack.append((node.right, 0, None, None))")
    p2 = "right_result = result_stack.pop()" in s
    # order inside phase 0 / 1: self is pushed before the child (so the child is processed first)
    order0 = s.find("stack.append((node, 1, None, None))") < s.find("stack.append((node.left, 0, None, None))")
    order1 = s.find("stack.append((node, 2, left_result, None))") < s.find("stack.append((node.right, 0, None, None))")
    ok = p0 and p1 and p2 and order0 and order1
    return ok, ("left child is evaluated first and its degree is carried in the frame; the right result is popped in phase 2" if ok else "the degree machine's phases do not follow: push self, push left / pop left, push self(left), push right / pop right")


def _gradient_results_by_id(fi):
    s = src(fi.node)
    ok = Frag(s, "results[node_id]", "node_id = id(current)", "results[id(left)]", "results[id(right)]", "results[id(operand)]")
    return ok, ("child gradients are looked up by the identity of the child node (order-free); nodes stay alive through the tree" if ok else "child gradients are not looked up by id(left)/id(right)/id(operand)")
