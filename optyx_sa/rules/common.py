"""Helpers shared by several rule modules."""

from __future__ import annotations

import ast
from dataclasses import dataclass

from ..astutil import dotted, src, walk_local, local_assignments
from ..report import AnalysisError

MUTATING_METHODS = {"append", "extend", "insert", "remove", "pop", "clear", "update", "sort", "reverse", "add", "discard", "setdefault", "__setitem__"}


def attr_writes(fn_node, receivers):
    """[(attr, node)] for stores / in-place mutations of ``<recv>.<attr>`` in a function."""
    out = []
    for n in walk_local(fn_node, include_self=False):
        targets = []
        if isinstance(n, ast.Assign):
            targets = n.targets
        elif isinstance(n, (ast.AugAssign, ast.AnnAssign)):
            targets = [n.target]
        elif isinstance(n, ast.Delete):
            targets = n.targets
        for t in targets:
            for e in ast.walk(t):
                if isinstance(e, ast.Attribute) and isinstance(e.ctx, (ast.Store, ast.Del)) and dotted(e.value) in receivers:
                    out.append((e.attr, n))
                # self._x[k] = v  mutates _x
                if isinstance(e, ast.Subscript) and isinstance(e.ctx, (ast.Store, ast.Del)):
                    b = e.value
                    if isinstance(b, ast.Attribute) and dotted(b.value) in receivers:
                        out.append((b.attr, n))
        if isinstance(n, ast.Call) and isinstance(n.func, ast.Attribute) and n.func.attr in MUTATING_METHODS:
            b = n.func.value
            if isinstance(b, ast.Attribute) and dotted(b.value) in receivers:
                out.append((b.attr, n))
    return out


def stmt_writes(stmt, receivers, attrs):
    return [a for a, _n in attr_writes(_wrap(stmt), receivers) if a in attrs]


def _wrap(node):
    m = ast.Module(body=[], type_ignores=[])
    f = ast.FunctionDef(name="_", args=None, body=[node] if isinstance(node, ast.stmt) else [ast.Expr(value=node)], decorator_list=[])
    return f


def problem_receivers(fi):
    """Names in a function that denote a Problem instance: ``self`` in Problem methods,
    parameters annotated Problem / named problem."""
    out = set()
    if fi.cls is not None and fi.cls.name == "Problem":
        out.add("self")
    args = fi.node.args
    for a in list(args.args) + list(args.kwonlyargs):
        ann = ast.unparse(a.annotation) if a.annotation is not None else ""
        if "Problem" in ann.replace('"', "").split(" | ") or ann.strip('"') == "Problem" or a.arg == "problem":
            out.add(a.arg)
    return out




@dataclass
class ProblemModel:
    P: object
    init: object
    inval: object
    reset: set
    init_attrs: dict
    cache_attrs: set
    model_attrs: set
    assigned_outside: dict
    cond_reset: set = None


def none_reset_only(P, attr):
    """{attr} if every write of P.<attr> outside __init__ assigns None (then it is a cache being dropped), else {}."""
    vals = []
    for m in P.methods.values():
        if m.name == "__init__":
            continue
        for a, n in attr_writes(m.node, {"self"}):
            if a == attr:
                vals.append(isinstance(n, ast.Assign) and isinstance(n.value, ast.Constant) and n.value.value is None)
    return {attr} if vals and all(vals) else set()


def problem_model(prog, rep=None) -> ProblemModel:
    """Model fields, cache fields and the invalidator of class Problem, derived from the source."""
    class _R:
        def saw(self, *a):
            pass
    rep = rep or _R()
    P = prog.cls("Problem")
    init = P.methods.get("__init__")
    if init is None:
        raise AnalysisError("Problem.__init__ not found")
    init_attrs = {}
    for a, n in attr_writes(init.node, {"self"}):
        if isinstance(n, (ast.Assign, ast.AnnAssign)):
            init_attrs[a] = n.value
    rep.saw("Problem.__init__ attributes", sorted(init_attrs))

    # ---- invalidator: a method whose body consists of resets of self attributes to an empty value (None, [], {}, set(),
    #      False, 0), at least two of them to None; resets may sit under an `if` (then they are conditional), and
    #      bookkeeping statements (a counter, a log call) do not disqualify it
    def empty_value(v):
        if isinstance(v, ast.Constant):
            return v.value is None or v.value is False or v.value == 0
        if isinstance(v, (ast.List, ast.Tuple, ast.Set)):
            return not v.elts
        if isinstance(v, ast.Dict):
            return not v.keys
        if isinstance(v, ast.Call) and dotted(v.func) in ("list", "dict", "set", "tuple", "frozenset") and not v.args and not v.keywords:
            return True
        return False

    def reset_targets(s):
        """attributes of self reset by statement s, or None if s is not a reset statement."""
        if isinstance(s, ast.AnnAssign):
            if isinstance(s.target, ast.Attribute) and dotted(s.target.value) == "self" and s.value is not None and empty_value(s.value):
                return [(s.target.attr, s.value)]
            return None
        if isinstance(s, ast.Assign) and all(isinstance(t, ast.Attribute) and dotted(t.value) == "self" for t in s.targets) and empty_value(s.value):
            return [(t.attr, s.value) for t in s.targets]
        return None

    def setattr_resets(s):
        """`setattr(self, "a", <empty>)`, or `for n in <module-level tuple of names>: setattr(self, n, <empty>)`."""
        if isinstance(s, ast.Expr) and isinstance(s.value, ast.Call) and dotted(s.value.func) == "setattr" and len(s.value.args) == 3 and dotted(s.value.args[0]) == "self" \
                and isinstance(s.value.args[1], ast.Constant) and isinstance(s.value.args[1].value, str) and empty_value(s.value.args[2]):
            return [(s.value.args[1].value, s.value.args[2])]
        if isinstance(s, ast.For) and isinstance(s.target, ast.Name) and not s.orelse and len(s.body) == 1:
            b = s.body[0]
            if isinstance(b, ast.Expr) and isinstance(b.value, ast.Call) and dotted(b.value.func) == "setattr" and len(b.value.args) == 3 and dotted(b.value.args[0]) == "self" \
                    and isinstance(b.value.args[1], ast.Name) and b.value.args[1].id == s.target.id and empty_value(b.value.args[2]):
                names = None
                it = s.iter
                if isinstance(it, (ast.Tuple, ast.List)) and all(isinstance(e, ast.Constant) and isinstance(e.value, str) for e in it.elts):
                    names = [e.value for e in it.elts]
                elif isinstance(it, ast.Name):
                    for st in P.module.tree.body:
                        tg = st.targets[0] if isinstance(st, ast.Assign) and len(st.targets) == 1 else st.target if isinstance(st, ast.AnnAssign) else None
                        if isinstance(tg, ast.Name) and tg.id == it.id and isinstance(getattr(st, "value", None), (ast.Tuple, ast.List)) and all(isinstance(e, ast.Constant) and isinstance(e.value, str) for e in st.value.elts):
                            names = [e.value for e in st.value.elts]
                if names:
                    return [(nm, b.value.args[2]) for nm in names]
        return None

    def bookkeeping(s):
        return isinstance(s, ast.Pass) or (isinstance(s, ast.Expr) and isinstance(s.value, ast.Call)) or \
            (isinstance(s, ast.AugAssign) and isinstance(s.target, ast.Attribute) and dotted(s.target.value) == "self")

    def harmless(s):
        """a statement that writes nothing on self: local bookkeeping inside the invalidator (imports, locals, a counter)"""
        if bookkeeping(s) or isinstance(s, (ast.Import, ast.ImportFrom, ast.Pass)):
            return True
        if isinstance(s, (ast.Assign, ast.AnnAssign, ast.AugAssign)):
            tg = s.targets if isinstance(s, ast.Assign) else [s.target]
            return all(isinstance(t, ast.Name) or (isinstance(t, ast.Tuple) and all(isinstance(e, ast.Name) for e in t.elts)) for t in tg)
        return False

    def scan(stmts, cond):
        """-> (unconditional resets, conditional resets, ok?).  A reset that happens in BOTH branches of an if is
        unconditional; `if self.a is not None: self.a = None` is the unconditional reset of a."""
        un, co = [], []
        for s in stmts:
            r = reset_targets(s)
            if r is None:
                r = setattr_resets(s)
            if r is not None:
                (co if cond else un).extend(r)
            elif isinstance(s, ast.If):
                u1, c1, ok1 = scan(s.body, False)
                u2, c2, ok2 = scan(s.orelse, False)
                if not (ok1 and ok2):
                    return un, co, False
                both = {a for a, _v in u1} & {a for a, _v in u2}
                # guard that only asks whether the attribute is set at all
                tested = {x.attr for x in ast.walk(s.test) if isinstance(x, ast.Attribute) and dotted(x.value) == "self"}
                only_self_test = len(tested) == 1 and not s.orelse and {a for a, _v in u1} == tested and not any(isinstance(x, ast.Call) for x in ast.walk(s.test))
                for a, v in u1 + u2:
                    if (a in both or only_self_test) and not cond:
                        if a not in {x for x, _ in un}:
                            un.append((a, v))
                    else:
                        co.append((a, v))
                co += c1 + c2
            elif harmless(s):
                continue
            else:
                return un, co, False
        return un, co, True

    invalidators = []
    for m in P.methods.values():
        if m is init:
            continue
        body = [s for s in m.node.body if not (isinstance(s, ast.Expr) and isinstance(s.value, ast.Constant))]
        un, co, ok = scan(body, False)
        n_none = sum(1 for _a, v in un if isinstance(v, ast.Constant) and v.value is None)
        if body and ok and n_none >= 2:
            invalidators.append((m, un, co))
    if len(invalidators) > 1:
        raise AnalysisError("more than one invalidator-shaped method in Problem")
    if not invalidators:
        # not finding one says "the idiom is not recognised", not "there is none": every rule that needs it is undecided
        raise AnalysisError("no invalidator-shaped method found in Problem (a method resetting >= 2 cache attributes to None): idiom not recognised")
    inval = invalidators[0][0] if invalidators else None
    reset = {a for a, _v in invalidators[0][1]} if invalidators else set()
    cond_reset = ({a for a, _v in invalidators[0][2]} - reset) if invalidators else set()
    rep.saw("invalidator", inval.qual if inval else None)

    # ---- cache attributes: memo pattern (tested against None and assigned) anywhere in the package,
    #      or assigned on a Problem receiver outside Problem.__init__ and initialised to None
    memo = {}
    assigned_outside = {}
    for fi in prog.functions.values():
        recv = problem_receivers(fi)
        if not recv:
            continue
        if fi is init or fi is inval:
            continue
        tested = set()
        for n in walk_local(fi.node, include_self=False):
            if isinstance(n, ast.Compare) and len(n.ops) == 1 and isinstance(n.ops[0], (ast.Is, ast.IsNot)):
                l = n.left
                if isinstance(l, ast.Attribute) and dotted(l.value) in recv and isinstance(n.comparators[0], ast.Constant) and n.comparators[0].value is None:
                    tested.add(l.attr)
        for a, n in attr_writes(fi.node, recv):
            assigned_outside.setdefault(a, []).append((fi, n))
            if a in tested:
                memo.setdefault(a, []).append((fi, n))
    # model fields: written by a public, non-property method of Problem (the user-facing edit API), directly or
    # through private helpers it calls on self; everything else that is assigned on a Problem instance outside
    # __init__ is derived state (a cache).
    def self_callees(fi_, seen=None):
        seen = seen or set()
        out = []
        for n in walk_local(fi_.node, include_self=False):
            if isinstance(n, ast.Call) and isinstance(n.func, ast.Attribute) and dotted(n.func.value) == "self" and n.func.attr in P.methods and n.func.attr not in seen:
                m = P.methods[n.func.attr]
                if m is inval:
                    continue
                seen.add(n.func.attr)
                out.append(m)
                out += self_callees(m, seen)
        return out

    model_attrs = set()
    for m in P.methods.values():
        decos = [ast.unparse(d) for d in m.node.decorator_list]
        if m.name.startswith("_") or "property" in decos or m is init:
            continue
        for g in [m] + self_callees(m):
            for a, n in attr_writes(g.node, {"self"}):
                if isinstance(n, (ast.Assign, ast.AugAssign, ast.AnnAssign)) and isinstance(getattr(n, "value", None), ast.Constant) and n.value.value is None:
                    continue  # resetting a cache to None is not a model edit
                if a in init_attrs and not (a in none_reset_only(P, a)):
                    model_attrs.add(a)
    # attributes that are tested against None and memoised in the same function are caches even if a public method assigns
    # them (whether the invalidator resets them is R13.2's question, not part of the definition)
    model_attrs -= {a for a in model_attrs if a in memo}
    # what the invalidator resets is derived state by definition
    model_attrs -= set(reset) | set(cond_reset)
    # an attribute nothing reads is bookkeeping (a solve counter, the last method used), not part of the model: it cannot
    # reach a derived artefact.  Reads: `<problem>.a` loads anywhere in the package, or loads of a property that returns it,
    # provided that property is itself read somewhere; __repr__/__str__ do not count.
    prop_of = {}
    for m in P.methods.values():
        if "property" in [ast.unparse(d) for d in m.node.decorator_list]:
            for r in walk_local(m.node, include_self=False):
                if isinstance(r, ast.Return) and isinstance(r.value, ast.Attribute) and dotted(r.value.value) == "self":
                    prop_of.setdefault(r.value.attr, set()).add(m.name)
    loads = {}
    for fi in prog.functions.values():
        if fi.name in ("__repr__", "__str__"):
            continue
        for n in walk_local(fi.node, include_self=False):
            if isinstance(n, ast.Attribute) and isinstance(n.ctx, ast.Load):
                loads.setdefault(n.attr, set()).add(fi.qual)
    def is_read(a):
        direct = {q for q in loads.get(a, set()) if not any(q.endswith(f"Problem.{p_}") for p_ in prop_of.get(a, ()))}
        via_prop = any(loads.get(p_) for p_ in prop_of.get(a, ()))
        return bool(direct) or via_prop
    unread = {a for a in model_attrs if not is_read(a)}
    if unread:
        rep.saw("write-only Problem attributes (bookkeeping, not model fields)", sorted(unread))
    model_attrs -= unread
    cache_attrs = (set(assigned_outside) | set(memo) | set(reset) | set(cond_reset)) - model_attrs
    cache_attrs = {a for a in cache_attrs if is_read(a) or a in reset or a in cond_reset}
    rep.saw("model fields", sorted(model_attrs))
    rep.saw("cache fields", sorted(cache_attrs))
    if not model_attrs:
        raise AnalysisError("no model fields found in Problem (idiom not recognised)")

    pm_ = ProblemModel(P, init, inval, reset, init_attrs, cache_attrs, model_attrs, assigned_outside)
    pm_.cond_reset = cond_reset
    return pm_


def bound_expr_problem(expr, env=None):
    """A variable bound may be used as is, or defaulted under an `is (not) None` test.  A TRUTHINESS test on a bound
    (`v.ub or inf`, `if v.ub and ...`) treats the legitimate bound 0 as "no bound".  Returns a description or None."""
    env = env or {}
    e = expr
    if isinstance(e, ast.Name) and e.id in env:
        e = env[e.id]
    def is_bound(n):
        return isinstance(n, ast.Attribute) and n.attr in ("lb", "ub")
    for n in ast.walk(e):
        if isinstance(n, ast.BoolOp):
            for v in n.values:
                if is_bound(v):
                    return f"`{src(n)[:60]}` tests the truthiness of {src(v)}: a bound of exactly 0 is treated as absent"
        if isinstance(n, ast.IfExp) and is_bound(n.test):
            return f"`{src(n)[:60]}` tests the truthiness of {src(n.test)}: a bound of exactly 0 is treated as absent"
        if isinstance(n, ast.UnaryOp) and isinstance(n.op, ast.Not) and is_bound(n.operand):
            return f"`{src(n)[:60]}` tests the truthiness of a bound"
    return None


def cache_inplace_mutations(prog, pm):
    """In-place modifications of objects reachable from a Problem cache inside consumer functions:
    [(function, node, description)]."""
    out = []
    for fi in prog.functions.values():
        recv = problem_receivers(fi)
        if not recv:
            continue
        asg = local_assignments(fi.node)
        # names bound to the cache object, or to one of its fields / entries
        level0 = {nm for nm, vals in asg.items() for v in vals if isinstance(v, ast.Attribute) and dotted(v.value) in recv and v.attr in pm.cache_attrs}
        level1 = {}
        for nm, vals in asg.items():
            for v in vals:
                if isinstance(v, ast.Attribute) and isinstance(v.value, ast.Name) and v.value.id in level0:
                    level1[nm] = f"{v.value.id}.{v.attr}"
                if isinstance(v, ast.Subscript) and isinstance(v.value, ast.Name) and v.value.id in level0:
                    level1[nm] = src(v)
                # X = cached.m() where m hands out an object it keeps on self (no copy): X is part of the cached object
                if isinstance(v, ast.Call) and isinstance(v.func, ast.Attribute) and isinstance(v.func.value, ast.Name) and v.func.value.id in level0:
                    kept = _returns_kept_object(prog, v.func.attr)
                    if kept:
                        level1[nm] = f"{v.func.value.id}.{v.func.attr}() (the object kept in self.{kept}, returned without a copy)"
        # entries of local dicts that hold (a part of) the cached object: {"c": lp_data.c}, kwargs["c"] = c
        def cached_part(v):
            if isinstance(v, ast.Attribute) and isinstance(v.value, ast.Name) and v.value.id in level0:
                return f"{v.value.id}.{v.attr}"
            if isinstance(v, ast.Name) and v.id in level1:
                return level1[v.id]
            return None

        held = {}
        for n in walk_local(fi.node, include_self=False):
            if isinstance(n, (ast.Assign, ast.AnnAssign)) and isinstance(getattr(n, "value", None), ast.Dict):
                tg = n.targets[0] if isinstance(n, ast.Assign) else n.target
                if isinstance(tg, ast.Name):
                    for k, v in zip(n.value.keys, n.value.values):
                        if isinstance(k, ast.Constant) and cached_part(v):
                            held[(tg.id, k.value)] = cached_part(v)
            if isinstance(n, ast.Assign) and isinstance(n.targets[0], ast.Subscript) and isinstance(n.targets[0].value, ast.Name) and isinstance(n.targets[0].slice, ast.Constant) and cached_part(n.value):
                held[(n.targets[0].value.id, n.targets[0].slice.value)] = cached_part(n.value)
        def aliases_cache(site, name):
            """May local `name` still denote (part of) the cached object at `site`?  False when every definition that can
            reach the site makes a fresh object (a copy, a negation, an arithmetic result, a constructor call)."""
            from ..astutil import reaching_values

            def fresh(v):
                if v == "?":
                    return False
                if isinstance(v, (ast.BinOp, ast.UnaryOp, ast.List, ast.Dict, ast.ListComp, ast.DictComp, ast.Tuple, ast.Constant)):
                    return True
                if isinstance(v, ast.Call):
                    if isinstance(v.func, ast.Attribute) and v.func.attr in ("copy", "astype", "tolist", "flatten"):
                        return True
                    d = dotted(v.func) or ""
                    if d in ("np.array", "np.copy", "np.zeros", "np.ones", "np.empty", "np.full", "np.zeros_like", "np.ones_like", "np.negative", "np.multiply", "np.add", "np.subtract", "list", "dict", "copy.copy", "copy.deepcopy") and not any(k.arg == "out" for k in v.keywords):
                        return True
                return False
            return not all(fresh(v) for v in reaching_values(site, name))

        for n in walk_local(fi.node, include_self=False):
            if isinstance(n, ast.AugAssign) and isinstance(n.target, ast.Subscript) and isinstance(n.target.value, ast.Name) and isinstance(n.target.slice, ast.Constant) and (n.target.value.id, n.target.slice.value) in held:
                out.append((fi, n, f"`{src(n)[:50]}` modifies {held[(n.target.value.id, n.target.slice.value)]} (part of the cached object, held in a local dict) in place"))
            if isinstance(n, ast.AugAssign):
                t = n.target
                base = t.value if isinstance(t, (ast.Subscript, ast.Attribute)) else t
                if isinstance(t, ast.Name) and t.id in level1 and aliases_cache(n, t.id):
                    out.append((fi, n, f"`{src(n)[:50]}` modifies {level1[t.id]} (part of the cached object) in place"))
                elif isinstance(base, ast.Name) and base.id in (set(level1) | level0) and not isinstance(t, ast.Name) and aliases_cache(n, base.id):
                    out.append((fi, n, f"`{src(n)[:50]}` modifies the cached object in place"))
            if isinstance(n, ast.Assign):
                for t in n.targets:
                    if isinstance(t, ast.Attribute) and isinstance(t.value, ast.Name) and t.value.id in level0 and aliases_cache(n, t.value.id):
                        out.append((fi, n, f"`{src(n)[:50]}` overwrites a field of the cached object"))
                    if isinstance(t, ast.Subscript) and isinstance(t.value, ast.Name) and t.value.id in level1 and aliases_cache(n, t.value.id):
                        out.append((fi, n, f"`{src(n)[:50]}` writes into {level1[t.value.id]} (part of the cached object)"))
            if isinstance(n, ast.Call) and isinstance(n.func, ast.Attribute) and n.func.attr in MUTATING_METHODS and isinstance(n.func.value, ast.Name) and n.func.value.id in level1 and aliases_cache(n, n.func.value.id):
                out.append((fi, n, f"`{src(n)[:50]}` mutates {level1[n.func.value.id]} (part of the cached object)"))
            if isinstance(n, ast.Call) and dotted(n.func) in ("np.negative", "np.multiply", "np.add") and any(k.arg == "out" for k in n.keywords):
                outk = [k.value for k in n.keywords if k.arg == "out"][0]
                if isinstance(outk, ast.Name) and outk.id in level1 and aliases_cache(n, outk.id):
                    out.append((fi, n, f"`{src(n)[:50]}` writes into {level1[outk.id]} in place"))
    return out


def _returns_kept_object(prog, meth):
    """attr when exactly one class of the package defines method ``meth`` and every return of it is `self.<attr>` (an object
    stored on the instance, handed out by reference); None otherwise."""
    owners = [c for c in prog.classes.values() if meth in c.methods]
    if len(owners) != 1:
        return None
    m = owners[0].methods[meth]
    rets = [r.value for r in walk_local(m.node, include_self=False) if isinstance(r, ast.Return)]
    attrs = set()
    asg = local_assignments(m.node)
    for r in rets:
        if isinstance(r, ast.Attribute) and dotted(r.value) == "self":
            attrs.add(r.attr)
        elif isinstance(r, ast.Name) and any(isinstance(t, ast.Attribute) and dotted(t.value) == "self" for n in walk_local(m.node, include_self=False) if isinstance(n, ast.Assign) and isinstance(n.value, ast.Name) and n.value.id == r.id for t in n.targets):
            # `self._kept = args; return args`
            attrs |= {t.attr for n in walk_local(m.node, include_self=False) if isinstance(n, ast.Assign) and isinstance(n.value, ast.Name) and n.value.id == r.id for t in n.targets if isinstance(t, ast.Attribute)}
        else:
            return None
    return sorted(attrs)[0] if len(attrs) == 1 else None


def helper_closure(prog, fi, depth=3):
    """``fi`` plus the helpers it reaches inside its own class (self.m(...) / self.prop) and module (f(...)), to the
    given depth.  Rules that ask "does F do X" search this closure, so that moving X into a helper does not read as
    "X is gone"; the world is closed by the call graph, not by the function boundary."""
    from ..callgraph import CallGraph

    cg = getattr(prog, "_cg", None)
    if cg is None:
        cg = prog._cg = CallGraph(prog)
    seen = {fi.qual: fi}
    frontier = [fi]
    for _ in range(depth):
        nxt = []
        for f in frontier:
            owner = cg.owner_class(f)
            for c in cg.callees(f):
                if c.qual in seen:
                    continue
                same_cls = owner is not None and c.cls is not None and (c.cls.name == owner.name or prog.is_subclass(owner.name, c.cls.name))
                same_mod = c.cls is None and (c.module is f.module or c.name.startswith("_"))   # a private helper imported from a sibling module is still a helper
                nested = c.parent is not None and c.parent.qual in seen
                if same_cls or same_mod or nested:
                    seen[c.qual] = c
                    nxt.append(c)
        frontier = nxt
    return list(seen.values())


def constructor_fields(prog, cls_name, call):
    """{field: value node} for a call of a dataclass-style constructor: keywords by name, positional arguments by the
    order of the annotated fields in the class body."""
    C = prog.cls(cls_name)
    order = [st.target.id for st in C.node.body if isinstance(st, ast.AnnAssign) and isinstance(st.target, ast.Name)]
    out = {}
    for name, a in zip(order, call.args):
        if isinstance(a, ast.Starred):
            break
        out[name] = a
    for k in call.keywords:
        if k.arg:
            out[k.arg] = k.value
        else:
            # **fields with `fields = {"c": c, ...}` built once in the same function
            d = k.value
            if isinstance(d, ast.Name):
                from ..astutil import enclosing_function
                fn = enclosing_function(call)
                vals = [v for v in local_assignments(fn).get(d.id, []) if isinstance(v, ast.AST)] if fn is not None else []
                d = vals[0] if len(vals) == 1 else d
            if isinstance(d, ast.Dict) and all(isinstance(kk, ast.Constant) for kk in d.keys):
                for kk, vv in zip(d.keys, d.values):
                    out[kk.value] = vv
            elif isinstance(d, ast.Call) and dotted(d.func) == "dict" and not d.args:
                for kw in d.keywords:
                    if kw.arg:
                        out[kw.arg] = kw.value
            else:
                out["**"] = k.value        # opaque expansion: callers must treat missing fields as unknown
    return out


def cache_entry_stores(prog, key, module_ok=None):
    """[(function, value node, that function's local assignments)] for every place the package stores a value under
    the string key ``key`` of a dict: `X["key"] = v`, a dict display `{"key": v, ...}`, `dict(key=v)` and
    `X.update(key=v)` / `X.setdefault("key", v)`."""
    out = []
    for f2 in prog.functions.values():
        if module_ok is not None and not module_ok(f2.module):
            continue
        a2 = None
        for n in walk_local(f2.node, include_self=False):
            vals = []
            if isinstance(n, ast.Assign):
                for t in n.targets:
                    if isinstance(t, ast.Subscript) and isinstance(t.slice, ast.Constant) and t.slice.value == key:
                        vals.append(n.value)
            elif isinstance(n, ast.Dict):
                vals += [v for k, v in zip(n.keys, n.values) if isinstance(k, ast.Constant) and k.value == key]
            elif isinstance(n, ast.Call):
                d = dotted(n.func) or ""
                if d == "dict" or (isinstance(n.func, ast.Attribute) and n.func.attr == "update"):
                    vals += [kw.value for kw in n.keywords if kw.arg == key]
                if isinstance(n.func, ast.Attribute) and n.func.attr == "setdefault" and len(n.args) == 2 and isinstance(n.args[0], ast.Constant) and n.args[0].value == key:
                    vals.append(n.args[1])
            for v in vals:
                if a2 is None:
                    a2 = local_assignments(f2.node)
                out.append((f2, v, a2))
    return out
