"""Value-carrying code of a property must not contain one of three constructs that are wrong for every reading of the
code around them (positive identifications; nothing here fires on "not found"):

P1 one-shot iterator used more than once
     a local bound to a generator (generator expression, call of a generator function of the package, enumerate /
     zip / map / filter / iter / reversed) that is iterated
       (a) inside a closure (lambda / nested def) the function hands out -- the first call of the closure exhausts it,
           every later call sees an empty sequence; or
       (b) inside a loop although it was created before that loop -- every iteration after the first sees it empty.
P2 a bound tested for truth
     `v.lb or ..`, `not v.ub`, `if v.lb:` -- a bound of exactly 0 is a bound; truthiness drops it.
P3 evaluated values stored into an array whose dtype is inherited or integral
     np.fromiter / np.zeros / np.empty / np.full / np.array(.., dtype=D) where D is `<other>.dtype` of an array that was
     not made floating in this function, or an integer / bool dtype (directly or as a possible result of a module
     helper): float results are truncated silently.

Each property's check calls `report(prog, rep, rule, rel_paths, kinds)` for the files that carry its values; the three
detectors are exercised on built-in positive examples on every run (a detector that stops matching fails the run).
"""

from __future__ import annotations

import ast

from ..astutil import dotted, src, walk_local
from ..report import AnalysisError

ITER_MAKERS = {"enumerate", "zip", "map", "filter", "iter", "reversed"}
INT_DTYPES = {"int", "bool", "np.int64", "np.int32", "np.int_", "np.intp", "np.bool_", "np.int16", "np.int8", "np.uint8", "np.uint64", "numpy.int64", "'int'", "'int64'", "'i8'", "'bool'"}
ARRAY_MAKERS = {"fromiter", "zeros", "empty", "full", "array", "asarray", "zeros_like", "empty_like", "full_like", "ones"}


def _generator_functions(trees):
    out = set()
    for tree in trees:
        for fn in ast.walk(tree):
            if isinstance(fn, (ast.FunctionDef, ast.AsyncFunctionDef)):
                own = []
                stack = list(fn.body)
                while stack:
                    n = stack.pop()
                    if isinstance(n, (ast.FunctionDef, ast.AsyncFunctionDef, ast.Lambda, ast.ClassDef)):
                        continue
                    own.append(n)
                    stack.extend(ast.iter_child_nodes(n))
                if any(isinstance(n, (ast.Yield, ast.YieldFrom)) for n in own) and not any(ast.unparse(d).split(".")[-1] == "contextmanager" for d in fn.decorator_list):
                    out.add(fn.name)
    return out


def _is_one_shot(v, gens):
    if isinstance(v, ast.GeneratorExp):
        return "a generator expression"
    if isinstance(v, ast.Call):
        d = dotted(v.func) or ""
        if d in ITER_MAKERS:
            return f"{d}(..)"
        if d.split(".")[-1] in gens and isinstance(v.func, ast.Name):
            return f"the generator {d}(..)"
    return None


def _iterations_of(name, root):
    """nodes below ``root`` that iterate over the bare name: for-loops, comprehension clauses, and calls that consume an
    iterable argument"""
    out = []
    for n in ast.walk(root):
        if isinstance(n, (ast.For, ast.comprehension)) and isinstance(n.iter, ast.Name) and n.iter.id == name:
            out.append(n)
        if isinstance(n, ast.Call) and (dotted(n.func) or "").split(".")[-1] in ("sum", "list", "tuple", "max", "min", "any", "all", "sorted", "array", "fromiter", "dict", "set", "next") and any(isinstance(a, ast.Name) and a.id == name for a in n.args):
            out.append(n)
    return out


def _own(fn):
    """nodes of a function including its lambdas, excluding nested defs / classes"""
    stack = list(ast.iter_child_nodes(fn))
    while stack:
        n = stack.pop()
        yield n
        if isinstance(n, (ast.FunctionDef, ast.AsyncFunctionDef, ast.ClassDef)):
            continue
        stack.extend(ast.iter_child_nodes(n))


def one_shot_iterators(tree, gens):
    found = []
    for fn in [n for n in ast.walk(tree) if isinstance(n, (ast.FunctionDef, ast.AsyncFunctionDef))]:
        for bind in [st for st in walk_local(fn, include_self=False) if isinstance(st, ast.Assign) and len(st.targets) == 1 and isinstance(st.targets[0], ast.Name)]:
            what = _is_one_shot(bind.value, gens)
            if what is None:
                continue
            nm = bind.targets[0].id
            # the statements that follow the binding in its own block, up to the next re-binding of the name there
            par = getattr(bind, "_parent", None)
            blk = next((lst for f_ in ("body", "orelse", "finalbody") for lst in [getattr(par, f_, None)] if isinstance(lst, list) and any(bind is x for x in lst)), None)
            if blk is None:
                continue
            i = next(k for k, x in enumerate(blk) if x is bind)
            after = []
            for st in blk[i + 1:]:
                if isinstance(st, ast.Assign) and any(isinstance(t, ast.Name) and t.id == nm for t in st.targets):
                    break
                after.append(st)
            done = False
            # (a) iterated inside a closure that captures it (free variable or default argument)
            for st in after:
                for cl in [n for n in ast.walk(st) if isinstance(n, (ast.Lambda, ast.FunctionDef))]:
                    args = cl.args
                    defaults = dict(zip([a.arg for a in args.args][::-1], args.defaults[::-1]))
                    inner = {k for k, d in defaults.items() if isinstance(d, ast.Name) and d.id == nm}
                    if not inner and nm not in {a.arg for a in args.args}:
                        inner = {nm}
                    body = cl.body if isinstance(cl.body, list) else [cl.body]
                    its = [x for b in body for k in inner for x in _iterations_of(k, b)]
                    if its:
                        found.append((getattr(its[0], "lineno", cl.lineno), "P1", fn.name,
                                      f"`{nm}` is {what} (line {bind.lineno}) and the closure at line {cl.lineno} iterates over it: the first call of the closure exhausts it, every later call runs over an empty sequence", f"{nm}@closure"))
                        done = True
                        break
                if done:
                    break
            if done:
                continue
            # (b) created before a loop, iterated inside it
            for st in after:
                for lp in [n for n in ast.walk(st) if isinstance(n, (ast.For, ast.While))]:
                    if isinstance(lp, ast.For) and isinstance(lp.iter, ast.Name) and lp.iter.id == nm and not any(_iterations_of(nm, b) for b in lp.body):
                        continue        # the loop itself consumes it once: fine
                    its = [x for b in lp.body for x in _iterations_of(nm, b)]
                    if its:
                        found.append((getattr(its[0], "lineno", lp.lineno), "P1", fn.name,
                                      f"`{nm}` is {what} created once at line {bind.lineno}, before the loop at line {lp.lineno}, and iterated inside that loop: from the second pass on it is empty", f"{nm}@loop"))
                        done = True
                        break
                if done:
                    break
    return found


def truthy_bounds(tree):
    found = []

    def is_bound(e):
        return isinstance(e, ast.Attribute) and e.attr in ("lb", "ub") and isinstance(e.ctx, ast.Load)

    for fn in [n for n in ast.walk(tree) if isinstance(n, (ast.FunctionDef, ast.AsyncFunctionDef))]:
        for n in walk_local(fn, include_self=False):
            hits = []
            if isinstance(n, ast.BoolOp):
                hits = [v for v in n.values if is_bound(v)]
            elif isinstance(n, ast.UnaryOp) and isinstance(n.op, ast.Not) and is_bound(n.operand):
                hits = [n.operand]
            elif isinstance(n, (ast.If, ast.While, ast.IfExp)) and is_bound(n.test):
                hits = [n.test]
            for h in hits:
                found.append((h.lineno, "P2", fn.name, f"`{src(h)}` is tested for truth (`{src(n)[:50]}`): a bound of exactly 0 counts as `no bound` there, although 0 is a bound like any other (only None means absent)", src(n)[:40]))
    return found


def _dtype_values(e, helpers, depth=0):
    """possible dtype expressions (source text) of a dtype= argument, following conditional expressions and the returns
    of module-level helpers"""
    if isinstance(e, ast.IfExp):
        return _dtype_values(e.body, helpers, depth) + _dtype_values(e.orelse, helpers, depth)
    if isinstance(e, ast.Call) and depth < 2:
        nm = (dotted(e.func) or "").split(".")[-1]
        if nm in helpers:
            out = []
            for r in [x for x in ast.walk(helpers[nm]) if isinstance(x, ast.Return) and x.value is not None]:
                out += _dtype_values(r.value, helpers, depth + 1)
            return out
    return [src(e)]


_INTEGRAL_CALLS = {"int", "len", "range", "enumerate", "index", "round", "ord", "id", "hash"}


def _evaluated(e):
    """the expression contains something whose value is computed and may be fractional: a call (other than the
    integral builtins), a true division, a float literal"""
    for x in ast.walk(e):
        if isinstance(x, ast.Call) and (dotted(x.func) or "?").split(".")[-1] not in _INTEGRAL_CALLS:
            return True
        if isinstance(x, ast.BinOp) and isinstance(x.op, ast.Div):
            return True
        if isinstance(x, ast.Constant) and isinstance(x.value, float):
            return True
    return False


def _integral(fn, e, depth=0):
    """positively an integer: literals, len / int / range-style calls, loop counters, sums and products of those"""
    if isinstance(e, ast.Constant):
        return isinstance(e.value, (int, bool)) and not isinstance(e.value, float)
    if isinstance(e, ast.Call):
        return (dotted(e.func) or "?").split(".")[-1] in _INTEGRAL_CALLS
    if isinstance(e, ast.BinOp) and isinstance(e.op, (ast.Add, ast.Sub, ast.Mult, ast.FloorDiv, ast.Mod)):
        return _integral(fn, e.left, depth) and _integral(fn, e.right, depth)
    if isinstance(e, ast.UnaryOp):
        return _integral(fn, e.operand, depth)
    if isinstance(e, ast.Name) and depth < 2:
        for l in walk_local(fn, include_self=False):
            if isinstance(l, (ast.For, ast.comprehension)):
                it = l.iter
                f = (dotted(it.func) or "") if isinstance(it, ast.Call) else ""
                if f == "range" and isinstance(l.target, ast.Name) and l.target.id == e.id:
                    return True
                if f == "enumerate" and isinstance(l.target, ast.Tuple) and l.target.elts and isinstance(l.target.elts[0], ast.Name) and l.target.elts[0].id == e.id:
                    return True
        defs = [x.value for x in walk_local(fn, include_self=False) if isinstance(x, ast.Assign) and len(x.targets) == 1 and isinstance(x.targets[0], ast.Name) and x.targets[0].id == e.id]
        return bool(defs) and all(_integral(fn, d, depth + 1) for d in defs)
    return False


def _receives_evaluated_values(fn, c):
    """Does the array made by call ``c`` receive evaluated (possibly fractional) values?  Element expressions of a list /
    comprehension argument count (their iterators do not: `[i for i, v in enumerate(vs) if ..]` is an index array);
    for zeros / empty / full / ones the later subscript stores into the name it is bound to count."""
    maker = (dotted(c.func) or "").split(".")[-1]
    if maker in ("zeros", "empty", "ones", "full"):
        names = {st.targets[0].id for st in walk_local(fn, include_self=False) if isinstance(st, ast.Assign) and st.value is c and len(st.targets) == 1 and isinstance(st.targets[0], ast.Name)}
        for st in walk_local(fn, include_self=False):
            tgt = st.targets[0] if isinstance(st, ast.Assign) and len(st.targets) == 1 else st.target if isinstance(st, ast.AugAssign) else None
            if isinstance(tgt, ast.Subscript) and isinstance(tgt.value, ast.Name) and tgt.value.id in names and not _integral(fn, st.value):
                return True
        return maker == "full" and len(c.args) > 1 and _evaluated(c.args[1])
    for a in c.args[:1]:
        if isinstance(a, (ast.ListComp, ast.GeneratorExp)):
            return _evaluated(a.elt)
        if isinstance(a, (ast.List, ast.Tuple)):
            return any(_evaluated(e) for e in a.elts)
        return _evaluated(a)
    return False


def truncating_dtypes(tree):
    found = []
    helpers = {}
    for n in ast.walk(tree):
        if isinstance(n, (ast.FunctionDef, ast.AsyncFunctionDef)):
            helpers.setdefault(n.name, n)
    for fn in [n for n in ast.walk(tree) if isinstance(n, (ast.FunctionDef, ast.AsyncFunctionDef))]:
        floats = set()
        for st in walk_local(fn, include_self=False):
            if isinstance(st, ast.Assign) and len(st.targets) == 1 and isinstance(st.targets[0], ast.Name) and isinstance(st.value, ast.Call):
                kws = {k.arg: k.value for k in st.value.keywords}
                if "dtype" in kws and src(kws["dtype"]) in ("float", "np.float64", "np.floating"):
                    floats.add(st.targets[0].id)
        for c in _own(fn):
            if not (isinstance(c, ast.Call) and (dotted(c.func) or "").startswith(("np.", "numpy.")) and (dotted(c.func) or "").split(".")[-1] in ARRAY_MAKERS):
                continue
            kws = {k.arg: k.value for k in c.keywords}
            d = kws.get("dtype")
            maker = (dotted(c.func) or "").split(".")[-1]
            if d is None and maker.endswith("_like") and c.args and isinstance(c.args[0], (ast.Name, ast.Attribute)):
                found.append((c.lineno, "P3", fn.name, f"`{src(c)[:60]}` inherits the dtype of `{src(c.args[0])}`: when that array is integral (an integer point, integer coefficients) the floating values stored into the new array are truncated to integers without any signal", f"like={src(c.args[0])}"))
                continue
            if d is None:
                continue
            # does the array receive evaluated values?  (its elements come from calls, or it is filled afterwards)
            fed = _receives_evaluated_values(fn, c)
            if not fed:
                continue
            for txt in _dtype_values(d, helpers):
                if txt.endswith(".dtype"):
                    base = txt[:-len(".dtype")]
                    if base in floats:
                        continue
                    found.append((c.lineno, "P3", fn.name, f"`{src(c)[:60]}` takes its dtype from `{base}`: when that array is integral (integer coefficients, an int matrix) the values stored into the new array are truncated to integers without any signal", f"dtype={txt}"))
                    break
                if txt in INT_DTYPES:
                    found.append((c.lineno, "P3", fn.name, f"`{src(c)[:60]}` can get the dtype {txt}: floating values stored into it are truncated to integers without any signal", f"dtype={txt}"))
                    break
    return found


def _consumptions(name, fn):
    """statements of ``fn`` that run through the iterable ``name`` from its start: loops, comprehensions, consuming calls,
    `sep.join(name)`, truth tests do not count (a generator is always true)"""
    out = []
    for n in _own(fn):
        if isinstance(n, (ast.For, ast.comprehension)) and isinstance(n.iter, ast.Name) and n.iter.id == name:
            out.append(n)
        elif isinstance(n, ast.Call) and any(isinstance(a, ast.Name) and a.id == name for a in n.args):
            f = n.func.attr if isinstance(n.func, ast.Attribute) else (dotted(n.func) or "")
            if f in ("sum", "list", "tuple", "max", "min", "any", "all", "sorted", "array", "fromiter", "dict", "set", "frozenset", "join", "extend", "update", "chain"):
                out.append(n)
    return out


def generators_passed_to_reiterating_functions(prog, rels, gens):
    """P1 (c): a function of the package runs through one of its parameters twice, and a call site in the listed files
    passes a one-shot iterator for it: the second pass sees nothing."""
    found = []
    twice = {}
    for fi in prog.functions.values():
        if not isinstance(fi.node, (ast.FunctionDef, ast.AsyncFunctionDef)):
            continue
        stores = {n.id for n in _own(fi.node) if isinstance(n, ast.Name) and isinstance(n.ctx, ast.Store)}
        for a in fi.node.args.args + fi.node.args.kwonlyargs:
            if a.arg in stores:
                continue
            cons = _consumptions(a.arg, fi.node)
            if len(cons) >= 2:
                twice[(fi.name, a.arg)] = (fi, cons)
    if not twice:
        return found
    from ..inline import bind_args
    for m in prog.modules.values():
        if m.rel not in rels:
            continue
        for caller in [n for n in ast.walk(m.tree) if isinstance(n, (ast.FunctionDef, ast.AsyncFunctionDef))]:
            local_gen = {}
            for st in _own(caller):
                if isinstance(st, ast.Assign) and len(st.targets) == 1 and isinstance(st.targets[0], ast.Name):
                    w = _is_one_shot(st.value, gens)
                    if w:
                        local_gen[st.targets[0].id] = w
            for c in _own(caller):
                if not isinstance(c, ast.Call):
                    continue
                nm = c.func.id if isinstance(c.func, ast.Name) else c.func.attr if isinstance(c.func, ast.Attribute) else None
                for (fname, pname), (fi, cons) in twice.items():
                    if nm != fname:
                        continue
                    try:
                        arg = bind_args(fi.node, c).get(pname)
                    except Exception:
                        arg = None
                    if arg is None:
                        continue
                    what = _is_one_shot(arg, gens) or (local_gen.get(arg.id) if isinstance(arg, ast.Name) else None)
                    if what:
                        found.append((c.lineno, "P1", caller.name,
                                      f"passes {what} as `{pname}` to {fname}(), which runs through `{pname}` twice (lines {getattr(cons[0], 'lineno', '?')} and {getattr(cons[1], 'lineno', '?')}): the second pass finds the iterator exhausted and sees no elements",
                                      f"{fname}({pname})"))
    return found


def identity_on_values(tree):
    """P4: `x is "text"` / `x is not 3` / `x is _CONST` with _CONST a module-level string or number: identity of strings
    and numbers is an accident of interning -- an equal value built at run time (parsed, lower-cased, computed) is a
    different object, so the test silently goes the other way."""
    from ..desugar import module_scalar_constants
    consts = {k for k, v in module_scalar_constants(tree).items() if isinstance(v, ast.Constant) and isinstance(v.value, (str, int, float)) and not isinstance(v.value, bool)}
    found = []
    for fn in [n for n in ast.walk(tree) if isinstance(n, (ast.FunctionDef, ast.AsyncFunctionDef))]:
        local = {n.id for n in _own(fn) if isinstance(n, ast.Name) and isinstance(n.ctx, ast.Store)} | {a.arg for a in ast.walk(fn.args) if isinstance(a, ast.arg)}
        for n in _own(fn):
            if isinstance(n, ast.Compare) and len(n.ops) == 1 and isinstance(n.ops[0], (ast.Is, ast.IsNot)):
                for side in (n.left, n.comparators[0]):
                    val = None
                    if isinstance(side, ast.Constant) and isinstance(side.value, (str, int, float)) and not isinstance(side.value, bool):
                        val = repr(side.value)
                    elif isinstance(side, ast.Name) and side.id in consts and side.id not in local:
                        val = side.id
                    if val is not None:
                        found.append((n.lineno, "P4", fn.name, f"`{src(n)[:60]}` compares with {val} by identity: two equal strings / numbers need not be one object (a value read from a file, lower-cased or computed is not the interned literal), so the test fails for an equal value", src(n)[:40]))
                        break
    return found


def lossy_fancy_accumulation(tree):
    """P5: `a[idx] += v` with an index ARRAY that can hold one position twice -- built by concatenating index arrays, or from
    a list that is appended to term by term -- adds only the LAST contribution for a repeated position (NumPy evaluates
    a[idx] + v once and stores it back); `np.add.at(a, idx, v)` is the accumulating form."""
    found = []
    CONCAT = {"concatenate", "hstack", "append", "r_"}
    WRAP = {"array", "asarray", "list", "tuple", "fromiter"}
    for fn in [n for n in ast.walk(tree) if isinstance(n, (ast.FunctionDef, ast.AsyncFunctionDef))]:
        binds = {}
        appended = set()
        for n in _own(fn):
            if isinstance(n, ast.Assign) and len(n.targets) == 1:
                t = n.targets[0]
                if isinstance(t, ast.Name):
                    binds.setdefault(t.id, []).append(n.value)
                elif isinstance(t, ast.Tuple):
                    for e in t.elts:
                        if isinstance(e, ast.Name):
                            binds.setdefault(e.id, []).append(n.value)
            if isinstance(n, ast.AnnAssign) and isinstance(n.target, ast.Name) and n.value is not None:
                binds.setdefault(n.target.id, []).append(n.value)
            if isinstance(n, ast.Call) and isinstance(n.func, ast.Attribute) and n.func.attr in ("append", "extend") and isinstance(n.func.value, ast.Name):
                appended.add(n.func.value.id)
        params = {a.arg for a in ast.walk(fn.args) if isinstance(a, ast.arg)}
        # bindings of the enclosing functions are visible to a closure
        up = getattr(fn, "_parent", None)
        while up is not None:
            if isinstance(up, (ast.FunctionDef, ast.AsyncFunctionDef)):
                for n in _own(up):
                    if isinstance(n, ast.Assign) and len(n.targets) == 1 and isinstance(n.targets[0], ast.Name) and n.targets[0].id not in binds:
                        binds.setdefault(n.targets[0].id, []).append(n.value)
            up = getattr(up, "_parent", None)
        # an empty list handed to a call is filled by the callee
        for n in _own(fn):
            if isinstance(n, ast.Call) and not (isinstance(n.func, ast.Name) and n.func.id in ("len", "list", "tuple", "zip", "sorted", "enumerate")):
                for a in n.args:
                    if isinstance(a, ast.Name) and any(isinstance(v, ast.List) and not v.elts for v in binds.get(a.id, [])):
                        appended.add(a.id)

        def may_repeat(e, depth=0):
            """why the index expression can contain a position twice, or None"""
            if depth > 3:
                return None
            if isinstance(e, ast.Call):
                f = (dotted(e.func) or "").split(".")[-1]
                if f in CONCAT and (dotted(e.func) or "").startswith(("np.", "numpy.")):
                    return f"np.{f}(..) joins several index arrays"
                if f in WRAP and e.args:
                    return may_repeat(e.args[0], depth + 1)
                if f == "zip" and e.args and isinstance(e.args[0], ast.Starred):
                    return may_repeat(e.args[0].value, depth + 1)
                return None
            if isinstance(e, ast.BinOp) and isinstance(e.op, ast.Add) and any(isinstance(x, (ast.List, ast.ListComp)) for x in (e.left, e.right)):
                return "two index lists are joined with +"
            if isinstance(e, ast.Name):
                if e.id in appended or (e.id in params and e.id in appended):
                    return f"`{e.id}` is a list filled term by term (append)"
                for v in binds.get(e.id, []):
                    r = may_repeat(v, depth + 1)
                    if r:
                        return r
            return None

        for n in _own(fn):
            if isinstance(n, ast.AugAssign) and isinstance(n.op, (ast.Add, ast.Sub)) and isinstance(n.target, ast.Subscript):
                why = may_repeat(n.target.slice)
                if why:
                    found.append((n.lineno, "P5", fn.name, f"`{src(n)[:60]}`: {why}, so one position can occur twice; a fancy-indexed `+=` keeps only the last contribution for a repeated position (use np.add.at to accumulate)", src(n.target)[:40]))
    return found


def raw_array_fields(trees):
    """names of instance fields that a constructor of the package fills with `np.asarray(param)` / `np.array(param)`
    without asking for a dtype: the user's array is kept in whatever dtype it came (bool, uint8, int64, float64, ...)"""
    fields = set()
    for tree in trees:
        for cls in [n for n in ast.walk(tree) if isinstance(n, ast.ClassDef)]:
            for init in [m for m in cls.body if isinstance(m, ast.FunctionDef) and m.name == "__init__"]:
                params = {a.arg for a in init.args.args}
                raw = set()
                for st in ast.walk(init):
                    if isinstance(st, ast.Assign) and len(st.targets) == 1 and isinstance(st.value, ast.Call) and (dotted(st.value.func) or "") in ("np.asarray", "np.array", "numpy.asarray", "numpy.array") \
                            and st.value.args and isinstance(st.value.args[0], ast.Name) and st.value.args[0].id in params and not any(k.arg == "dtype" for k in st.value.keywords) and len(st.value.args) == 1:
                        t = st.targets[0]
                        if isinstance(t, ast.Name):
                            raw.add(t.id)
                        elif isinstance(t, ast.Attribute) and isinstance(t.value, ast.Name) and t.value.id == "self":
                            fields.add(t.attr)
                for st in ast.walk(init):
                    if isinstance(st, ast.Assign) and len(st.targets) == 1 and isinstance(st.targets[0], ast.Attribute) and isinstance(st.targets[0].value, ast.Name) and st.targets[0].value.id == "self" \
                            and isinstance(st.value, ast.Name) and st.value.id in raw:
                        fields.add(st.targets[0].attr)
    return fields


def own_dtype_arithmetic(tree, fields):
    """P6: `Q + Q.T` / `A - A.T` on an array the package stores in the caller's dtype: for a boolean matrix `+` is a logical
    OR, for a small unsigned dtype the sum wraps around -- the derivative coefficients built from it are not the numbers
    the evaluation uses (which multiplies the same array by floating values)."""
    found = []
    if not fields:
        return found
    for fn in [n for n in ast.walk(tree) if isinstance(n, (ast.FunctionDef, ast.AsyncFunctionDef))]:
        local = {}
        floated = set()
        for st in _own(fn):
            if isinstance(st, ast.Assign) and len(st.targets) == 1 and isinstance(st.targets[0], ast.Name):
                v = st.value
                if isinstance(v, ast.Attribute) and v.attr in fields:
                    local[st.targets[0].id] = v.attr
                if isinstance(v, ast.Call) and (any(k.arg == "dtype" for k in v.keywords) or (isinstance(v.func, ast.Attribute) and v.func.attr == "astype")):
                    floated.add(st.targets[0].id)

        def field_of(e):
            while isinstance(e, ast.Attribute) and e.attr == "T":
                e = e.value
            if isinstance(e, ast.Call) and isinstance(e.func, ast.Attribute) and e.func.attr == "transpose":
                return field_of(e.func.value)
            if isinstance(e, ast.Attribute) and e.attr in fields:
                return e.attr
            if isinstance(e, ast.Name) and e.id in local and e.id not in floated:
                return local[e.id]
            return None

        for n in _own(fn):
            if isinstance(n, ast.BinOp) and isinstance(n.op, (ast.Add, ast.Sub)):
                a, b = field_of(n.left), field_of(n.right)
                if a and b and a == b:
                    found.append((n.lineno, "P6", fn.name, f"`{src(n)[:50]}` is computed in the dtype the caller's `{a}` array came in (the constructor keeps it as np.asarray gives it): for a boolean matrix `+` is a logical OR and for uint8 the sum wraps, "
                                  f"so the coefficients derived from it differ from the ones the evaluation multiplies with", src(n)[:40]))
    return found


def default_tolerance_decisions(tree):
    """P7: np.isclose / np.allclose / math.isclose called WITHOUT rtol / atol (NumPy's defaults are rtol=1e-5, atol=1e-8)
    on model data, deciding a branch: data of magnitude 1e-8 or below is "equal to zero", and two values that differ by a
    relative 1e-5 are "the same".  Coefficients in small units vanish, a nearly symmetric matrix is taken for symmetric,
    a small parameter update is not an update."""
    found = []
    for fn in [n for n in ast.walk(tree) if isinstance(n, (ast.FunctionDef, ast.AsyncFunctionDef))]:
        for c in _own(fn):
            if not (isinstance(c, ast.Call) and (dotted(c.func) or "").split(".")[-1] in ("isclose", "allclose") and len(c.args) >= 2):
                continue
            if len(c.args) > 2 or any(k.arg in ("rtol", "atol", "rel_tol", "abs_tol") or k.arg is None for k in c.keywords) or any(isinstance(a, ast.Starred) for a in c.args):
                continue            # tolerances given (also through *args / **mapping)
            found.append((c.lineno, "P7", fn.name, f"`{src(c)[:60]}` decides with NumPy's default tolerances (rtol 1e-5, atol 1e-8): whether model data counts as zero / equal then depends on the units it is written in -- "
                          f"values of magnitude 1e-8 vanish and relative differences below 1e-5 are ignored", src(c)[:40]))
    return found


DETECTORS = {"P7": "default-tolerance-decision", "P6": "own-dtype-arithmetic", "P1": "one-shot-iterator", "P2": "truthy-bound", "P3": "truncating-dtype", "P4": "identity-on-value", "P5": "lossy-fancy-accumulation"}

_POSITIVE = {
    "P1": "def gen(xs):\n    for x in xs:\n        yield x\n\ndef build(xs):\n    fns = gen(xs)\n    return lambda x, fns=fns: sum(f(x) for f in fns)\n\ndef rows(elems, qs):\n    it = enumerate(elems)\n    for q in qs:\n        for j, e in it:\n            pass\n",
    "P2": "def check(v):\n    if not (v.lb or v.ub):\n        return None\n    return v\n",
    "P3": "import numpy as np\ndef ev(c, fns, x):\n    return np.fromiter((f(x) for f in fns), dtype=c.dtype, count=len(fns))\ndef fill(vals, names, kind):\n    out = np.zeros(len(names), dtype=np.int64 if kind else np.float64)\n    for i, nm in enumerate(names):\n        out[i] = vals[nm]\n    return out\n",
    "P4": "_KIND = 'integer'\ndef f(v):\n    return v.domain is _KIND or v.domain is not 'binary'\n",
    "P5": "import numpy as np\ndef g(res, a, b, terms):\n    res[np.concatenate([a, b])] += 1.0\n    idx = []\n    for t in terms:\n        idx.append(t)\n    res[np.array(idx)] += 2.0\n",
}
_NEGATIVE = "import numpy as np\ndef ok(xs, v, c):\n    fns = list(f for f in xs)\n    pairs = enumerate(xs)\n    for i, e in pairs:\n        pass\n    if v.lb is not None and v.ub is None:\n        pass\n    out = np.zeros(3, dtype=float)\n    pos = np.array([i for i, w in enumerate(xs) if w in v], dtype=int)\n    counts = np.zeros(len(xs), dtype=int)\n    for i in range(len(xs)):\n        counts[i] += 1\n    return lambda x, fns=fns: sum(f(x) for f in fns)\n"


def selfcheck():
    for kind, code in _POSITIVE.items():
        tree = ast.parse(code)
        _parents(tree)
        got = _run(tree, _generator_functions([tree]))
        n_expected = {"P1": 2, "P2": 2, "P3": 2, "P4": 2, "P5": 2}[kind]
        if sum(1 for f in got if f[1] == kind) != n_expected:
            raise AnalysisError(f"pitfall detector {kind} no longer matches its built-in positive example ({len(got)} finding(s))")
    ex6 = "import numpy as np\nclass Q:\n    def __init__(self, matrix):\n        matrix = np.asarray(matrix)\n        self.matrix = matrix\n    def row(self):\n        return self.matrix + self.matrix.T\n    def ok(self):\n        m = np.asarray(self.matrix, dtype=np.float64)\n        return m + m.T\n"
    t6 = ast.parse(ex6)
    _parents(t6)
    if len(own_dtype_arithmetic(t6, raw_array_fields([t6]))) != 1:
        raise AnalysisError("pitfall detector P6 no longer matches its built-in positive example")
    ex7 = "import numpy as np\ndef f(c, q):\n    if np.isclose(c, 0.0):\n        return 0\n    return np.allclose(q, q.T, rtol=1e-10, atol=1e-14)\n"
    t7 = ast.parse(ex7)
    _parents(t7)
    if len(default_tolerance_decisions(t7)) != 1:
        raise AnalysisError("pitfall detector P7 no longer matches its built-in positive example")
    tree = ast.parse(_NEGATIVE)
    _parents(tree)
    got = _run(tree, _generator_functions([tree]))
    if got:
        raise AnalysisError(f"pitfall detectors fire on the built-in negative example: {got[0][3][:80]}")


def _parents(tree):
    for n in ast.walk(tree):
        for c in ast.iter_child_nodes(n):
            c._parent = n


def _run(tree, gens, kinds=("P1", "P2", "P3", "P4", "P5")):
    out = []
    if "P1" in kinds:
        out += one_shot_iterators(tree, gens)
    if "P2" in kinds:
        out += truthy_bounds(tree)
    if "P3" in kinds:
        out += truncating_dtypes(tree)
    if "P4" in kinds:
        out += identity_on_values(tree)
    if "P5" in kinds:
        out += lossy_fancy_accumulation(tree)
    return out


def report(prog, rep, rule, rels, kinds=("P1", "P2", "P3"), skip_functions=()):
    """One robust obligation per finding in the listed files, plus one (trivial) inventory line."""
    selfcheck()
    kinds = tuple(kinds) + (("P4",) if "P4" not in kinds else ()) + (("P5",) if "P5" not in kinds else ())
    gens = _generator_functions([m.tree for m in prog.modules.values()])
    raw_fields = raw_array_fields([m.tree for m in prog.modules.values()])
    n_fn = 0
    total = 0
    for m in prog.modules.values():
        if m.rel not in rels:
            continue
        n_fn += sum(1 for n in ast.walk(m.tree) if isinstance(n, (ast.FunctionDef, ast.AsyncFunctionDef)))
        extra = generators_passed_to_reiterating_functions(prog, [m.rel], gens) if "P1" in kinds else []
        extra += own_dtype_arithmetic(m.tree, raw_fields)
        extra += default_tolerance_decisions(m.tree)
        for lineno, kind, fname, msg, key in _run(m.tree, gens, kinds) + extra:
            if fname in skip_functions:
                continue
            total += 1
            rep.ob(rule, f"{fname}", False, msg, loc=f"{m.rel}:{lineno}", detail=f"{DETECTORS[kind]}:{key}", robust=True)
    rep.ob(rule, "value-carrying code", True, f"{n_fn} functions of {sorted(rels)} scanned for {', '.join(DETECTORS[k] for k in kinds)}, own-dtype-arithmetic, default-tolerance-decision: {total} finding(s)", detail="pitfall-inventory", trivial=True, loc=None)
