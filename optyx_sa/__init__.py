"""optyx_sa -- repository-specific static analysis for daggbt/optyx.

Pure stdlib (ast, fractions).  Never imports or executes optyx.
See /verif/DESIGN.md.
"""

__all__ = ["loader", "astutil", "must", "report", "algebra", "terms"]
