"""Small syntax-tree helpers shared by all rules."""

from __future__ import annotations

import ast
from dataclasses import dataclass, field

FUNC_NODES = (ast.FunctionDef, ast.AsyncFunctionDef, ast.Lambda)


def src(node) -> str:
    """Normalised source text of a node (used for keys / messages, never for position)."""
    if node is None:
        return ""
    if isinstance(node, list):
        return "; ".join(src(n) for n in node)
    return ast.unparse(node)


def dotted(node) -> str | None:
    parts = []
    while isinstance(node, ast.Attribute):
        parts.append(node.attr)
        node = node.value
    if isinstance(node, ast.Name):
        parts.append(node.id)
        return ".".join(reversed(parts))
    return None


def walk_local(node, include_self=True):
    """ast.walk that does not descend into nested function / lambda / class bodies."""
    todo = [node]
    first = True
    while todo:
        n = todo.pop()
        if not first and isinstance(n, FUNC_NODES + (ast.ClassDef,)):
            yield n  # the def itself is visible (as a statement) but not its inside
            continue
        if include_self or not first:
            yield n
        first = False
        todo.extend(reversed(list(ast.iter_child_nodes(n))))


def calls(node, local=True):
    it = walk_local(node) if local else ast.walk(node)
    return [n for n in it if isinstance(n, ast.Call)]


def call_name(call: ast.Call) -> str | None:
    return dotted(call.func)


def conjuncts(test) -> list:
    if isinstance(test, ast.BoolOp) and isinstance(test.op, ast.And):
        out = []
        for v in test.values:
            out.extend(conjuncts(v))
        return out
    return [test]


def disjuncts(test) -> list:
    if isinstance(test, ast.BoolOp) and isinstance(test.op, ast.Or):
        out = []
        for v in test.values:
            out.extend(disjuncts(v))
        return out
    return [test]


def resolve_class(name_node, aliases: dict) -> str | None:
    """Class name an expression refers to, through import aliases (``Variable as Var``)."""
    d = dotted(name_node)
    if d is None:
        return None
    head = d.split(".")[0]
    if head in aliases:
        origin = aliases[head]
        d = origin + d[len(head):]
    return d.split(".")[-1]


def isinstance_parts(test, aliases: dict):
    """For ``isinstance(X, K)`` / ``isinstance(X, (K1, K2))`` / ``not isinstance(...)``
    return (subject_source, [class names], negated) else None."""
    neg = False
    if isinstance(test, ast.UnaryOp) and isinstance(test.op, ast.Not):
        neg = True
        test = test.operand
    if not (isinstance(test, ast.Call) and isinstance(test.func, ast.Name) and test.func.id == "isinstance"):
        return None
    if len(test.args) != 2:
        return None
    subj, k = test.args
    ks = k.elts if isinstance(k, (ast.Tuple, ast.List)) else [k]
    names = []
    for e in ks:
        n = resolve_class(e, aliases)
        if n is None:
            return None
        names.append(n)
    return src(subj), names, neg


def if_chain(node: ast.If):
    """Flatten if/elif/.../else into ([(test, body, ifnode)], else_body)."""
    arms = []
    cur = node
    while True:
        arms.append((cur.test, cur.body, cur))
        if len(cur.orelse) == 1 and isinstance(cur.orelse[0], ast.If):
            cur = cur.orelse[0]
        else:
            return arms, cur.orelse


def terminal(body) -> str | None:
    """How a block always ends: 'return' | 'raise' | 'continue' | 'break' | 'mixed' (all paths leave) | None."""
    if not body:
        return None
    last = body[-1]
    if isinstance(last, ast.Return):
        return "return"
    if isinstance(last, ast.Raise):
        return "raise"
    if isinstance(last, ast.Continue):
        return "continue"
    if isinstance(last, ast.Break):
        return "break"
    if isinstance(last, ast.If):
        arms, els = if_chain(last)
        kinds = [terminal(b) for _t, b, _n in arms] + [terminal(els)]
        if all(k is not None for k in kinds):
            return kinds[0] if len(set(kinds)) == 1 else "mixed"
    if isinstance(last, ast.Try):
        # all of body/handlers terminate
        kinds = [terminal(last.body + last.orelse)] + [terminal(h.body) for h in last.handlers]
        if last.finalbody and terminal(last.finalbody):
            return terminal(last.finalbody)
        if all(k is not None for k in kinds):
            return kinds[0] if len(set(kinds)) == 1 else "mixed"
    return None


@dataclass
class Arm:
    kinds: list  # class names (type dispatch) or literals (op dispatch)
    subject: str
    test: ast.AST
    body: list
    node: ast.AST
    extra: list = field(default_factory=list)  # other conjuncts of the guard
    negated: bool = False
    nested_in_else: bool = False

    @property
    def lineno(self):
        return self.node.lineno


def type_arms(stmts, aliases: dict, subject: str | None = None, _nested=False) -> list:
    """isinstance-dispatch arms found at the top level of a statement list, in order.
    Recognises if/elif chains, sequences of ``if ...: return/continue`` and arms in trailing ``else`` blocks."""
    out = []
    for st in stmts:
        if not isinstance(st, ast.If):
            continue
        arms, els = if_chain(st)
        for test, body, node in arms:
            cs = conjuncts(test)
            found = None
            for c in cs:
                p = isinstance_parts(c, aliases)
                if p and (subject is None or p[0] == subject):
                    found = (c, p)
                    break
            if found:
                c, (subj, names, neg) = found
                out.append(Arm(names, subj, test, body, node, [x for x in cs if x is not c], neg, _nested))
        if els:
            out.extend(type_arms(els, aliases, subject, True))
    return out


# module-level names bound once in the package to a literal tuple / list / set / frozenset of strings (filled by the
# loader); lets `x in _VALID_SENSES` be read like `x in ("<=", ">=", "==")`
LITERAL_TUPLES: dict = {}


def _literal_strs(node):
    if isinstance(node, ast.Constant) and isinstance(node.value, str):
        return [node.value]
    if isinstance(node, ast.Name) and node.id in LITERAL_TUPLES:
        return list(LITERAL_TUPLES[node.id])
    if isinstance(node, (ast.Tuple, ast.List, ast.Set)):
        vals = []
        for e in node.elts:
            if not (isinstance(e, ast.Constant) and isinstance(e.value, str)):
                return None
            vals.append(e.value)
        return vals
    return None


def op_test(test):
    """``X == "lit"`` / ``X in ("a", "b")`` / ``X != "lit"`` -> (subject_source, [literals], negated) else None."""
    if isinstance(test, ast.Compare) and len(test.ops) == 1:
        op = test.ops[0]
        lits = _literal_strs(test.comparators[0])
        if lits is None and isinstance(op, (ast.Eq, ast.NotEq)) and isinstance(test.left, ast.Constant) and isinstance(test.left.value, str):
            # "lit" == X
            return src(test.comparators[0]), [test.left.value], isinstance(op, ast.NotEq)
        if lits is not None:
            if isinstance(op, ast.Eq):
                return src(test.left), lits, False
            if isinstance(op, ast.NotEq):
                return src(test.left), lits, True
            if isinstance(op, ast.In):
                return src(test.left), lits, False
            if isinstance(op, ast.NotIn):
                return src(test.left), lits, True
    return None


def op_arms(stmts, subject_suffix: str | None = None, _nested=False) -> list:
    """String-literal dispatch arms (``expr.op == "+"``) at the top level of a statement list."""
    out = []
    for st in stmts:
        if not isinstance(st, ast.If):
            continue
        arms, els = if_chain(st)
        for test, body, node in arms:
            cs = conjuncts(test)
            for c in cs:
                p = op_test(c)
                if p and (subject_suffix is None or p[0] == subject_suffix or p[0].endswith("." + subject_suffix)):
                    out.append(Arm(p[1], p[0], test, body, node, [x for x in cs if x is not c], p[2], _nested))
                    break
        if els:
            out.extend(op_arms(els, subject_suffix, True))
    return out


def statement_lists(fn_node):
    """Every statement list inside a function (not inside nested defs)."""
    out = []

    def rec(stmts):
        out.append(stmts)
        for st in stmts:
            if isinstance(st, FUNC_NODES + (ast.ClassDef,)):
                continue
            for fld in ("body", "orelse", "finalbody"):
                sub = getattr(st, fld, None)
                if isinstance(sub, list) and sub and isinstance(sub[0], ast.stmt):
                    rec(sub)
            if isinstance(st, ast.Try):
                for h in st.handlers:
                    rec(h.body)

    body = fn_node.body if isinstance(fn_node.body, list) else []
    rec(body)
    return out


def best_dispatch_block(fn_node, aliases, known: set, min_arms=2):
    """The statement list of a function holding the most isinstance arms over known classes."""
    best = (0, None, None)
    for stmts in statement_lists(fn_node):
        arms = [a for a in type_arms(stmts, aliases) if any(k in known for k in a.kinds) and not a.nested_in_else]
        by_subj: dict = {}
        for a in arms:
            by_subj.setdefault(a.subject, []).append(a)
        for subj, lst in by_subj.items():
            if len(lst) > best[0]:
                best = (len(lst), stmts, subj)
    if best[0] < min_arms:
        return None, None
    return best[1], best[2]


def assigned_names(target) -> list:
    if isinstance(target, ast.Name):
        return [target.id]
    if isinstance(target, (ast.Tuple, ast.List)):
        out = []
        for e in target.elts:
            out.extend(assigned_names(e))
        return out
    if isinstance(target, ast.Starred):
        return assigned_names(target.value)
    return []


def local_assignments(fn_node) -> dict:
    """name -> list of value nodes assigned to it in the function body (not nested defs)."""
    out: dict = {}
    for n in walk_local(fn_node, include_self=False):
        if isinstance(n, ast.Assign):
            for t in n.targets:
                if isinstance(t, ast.Name):
                    out.setdefault(t.id, []).append(n.value)
                elif isinstance(t, (ast.Tuple, ast.List)) and isinstance(n.value, (ast.Tuple, ast.List)) and len(t.elts) == len(n.value.elts):
                    for te, ve in zip(t.elts, n.value.elts):
                        if isinstance(te, ast.Name):
                            out.setdefault(te.id, []).append(ve)
                else:
                    for nm in assigned_names(t):
                        out.setdefault(nm, []).append(n.value)
        elif isinstance(n, ast.AnnAssign) and isinstance(n.target, ast.Name) and n.value is not None:
            out.setdefault(n.target.id, []).append(n.value)
        elif isinstance(n, ast.AugAssign) and isinstance(n.target, ast.Name):
            out.setdefault(n.target.id, []).append(n)
    return out


def parent(node):
    return getattr(node, "_parent", None)


def enclosing(node, types):
    p = parent(node)
    while p is not None and not isinstance(p, types):
        p = parent(p)
    return p


def enclosing_function(node):
    return enclosing(node, FUNC_NODES)


def in_block_of(node, ancestor, field_name) -> bool:
    """Is ``node`` inside ``ancestor.<field_name>`` (e.g. the body / orelse of an If)?"""
    blk = getattr(ancestor, field_name, [])
    ids = set()
    for st in blk if isinstance(blk, list) else [blk]:
        for n in ast.walk(st):
            ids.add(id(n))
    return id(node) in ids


def dominating_guards(node, stop=None) -> list:
    """Guards (test, polarity) of the enclosing ``if`` / conditional expressions / comprehension filters
    on the way up from ``node`` to its function.  polarity False = node is in the else branch."""
    out = []
    child = node
    p = parent(node)
    while p is not None and p is not stop and not isinstance(p, FUNC_NODES + (ast.ClassDef,)):
        if isinstance(p, ast.If):
            if any(child is s for s in p.body):
                out.append((p.test, True))
            elif any(child is s for s in p.orelse):
                out.append((p.test, False))
        elif isinstance(p, ast.IfExp):
            if child is p.body:
                out.append((p.test, True))
            elif child is p.orelse:
                out.append((p.test, False))
        elif isinstance(p, ast.BoolOp) and isinstance(p.op, ast.And):
            idx = [i for i, v in enumerate(p.values) if v is child]
            if idx:
                for v in p.values[: idx[0]]:
                    out.append((v, True))
        elif isinstance(p, ast.comprehension):
            pass
        elif isinstance(p, (ast.ListComp, ast.GeneratorExp, ast.SetComp, ast.DictComp)):
            for g in p.generators:
                for cond in g.ifs:
                    if child is not g:
                        out.append((cond, True))
        elif isinstance(p, ast.While):
            if any(child is s for s in p.body):
                out.append((p.test, True))
        child = p
        p = parent(p)
    return out


def preceding_exit_guards(node) -> list:
    """Negated guards of earlier ``if T: <always leaves>`` statements in the blocks enclosing ``node``:
    when control reaches ``node``, T was false.  Returns list of (test, False)."""
    out = []
    child = node
    p = parent(node)
    while p is not None and not isinstance(p, FUNC_NODES + (ast.ClassDef,)):
        for fld in ("body", "orelse", "finalbody"):
            blk = getattr(p, fld, None)
            if isinstance(blk, list) and any(child is s for s in blk):
                for s in blk:
                    if s is child:
                        break
                    if isinstance(s, ast.If) and terminal(s.body) is not None and not s.orelse:
                        out.append((s.test, False))
        child = p
        p = parent(p)
    # function body level
    if p is not None and isinstance(getattr(p, "body", None), list):
        for s in p.body:
            if s is child:
                break
            if isinstance(s, ast.If) and terminal(s.body) is not None and not s.orelse:
                out.append((s.test, False))
    return out


def _block_of(stmt):
    """(list holding ``stmt``, index) in its parent, or (None, None)."""
    p = parent(stmt)
    if p is None:
        return None, None
    for f in ("body", "orelse", "finalbody", "handlers"):
        blk = getattr(p, f, None)
        if isinstance(blk, list):
            for i, s in enumerate(blk):
                if s is stmt:
                    return blk, i
    return None, None


def reaching_value(node, name: str):
    """The value expression of the assignment to local ``name`` that reaches ``node`` by straight-line scanning:
    previous siblings in the same block, then the blocks enclosing it.  None when a compound statement in between
    assigns the name (several candidates), when no assignment is found, or on loop back edges."""
    st = node
    while st is not None and not isinstance(st, ast.stmt):
        st = parent(st)
    while st is not None and not isinstance(st, FUNC_NODES):
        blk, i = _block_of(st)
        if blk is None:
            return None
        for prev in reversed(blk[:i]):
            if isinstance(prev, ast.Assign) and len(prev.targets) == 1 and isinstance(prev.targets[0], ast.Name) and prev.targets[0].id == name:
                return prev.value
            if isinstance(prev, ast.AnnAssign) and isinstance(prev.target, ast.Name) and prev.target.id == name and prev.value is not None:
                return prev.value
            if isinstance(prev, ast.Assign) and len(prev.targets) == 1 and isinstance(prev.targets[0], ast.Tuple) and isinstance(prev.value, ast.Tuple) and len(prev.targets[0].elts) == len(prev.value.elts):
                for t_, v_ in zip(prev.targets[0].elts, prev.value.elts):
                    if isinstance(t_, ast.Name) and t_.id == name:
                        return v_
            if any(isinstance(x, ast.Name) and x.id == name and isinstance(x.ctx, ast.Store) for x in ast.walk(prev)):
                return None
        st = parent(st)
        if isinstance(st, (ast.For, ast.While)) and any(isinstance(x, ast.Name) and x.id == name and isinstance(x.ctx, ast.Store) for x in ast.walk(st)):
            return None
    return None


def reaching_values(node, name: str):
    """All value expressions of assignments to local ``name`` that may reach ``node`` (a may-analysis over the block
    structure: an ``if`` / ``try`` before the use contributes the last definition of each branch that has one, and the
    scan goes on past it when some branch has none).  The marker ``"?"`` is included when a definition cannot be
    expressed as a value (augmented assignment, loop target, with-as, loop back edge) or when none is found."""
    def last_defs(stmts):
        """(values defined along `stmts` that survive to its end, may the block fall through without defining?)"""
        out, open_ = [], True
        for st in reversed(stmts):
            vals, through = defs_of(st)
            out += vals
            if not through:
                open_ = False
                break
        return out, open_

    def defs_of(st):
        """(values, may control pass st without (re)defining name?)"""
        if isinstance(st, ast.Assign):
            for t in st.targets:
                if isinstance(t, ast.Name) and t.id == name:
                    return [st.value], False
                if isinstance(t, (ast.Tuple, ast.List)):
                    if isinstance(st.value, (ast.Tuple, ast.List)) and len(t.elts) == len(st.value.elts):
                        for t_, v_ in zip(t.elts, st.value.elts):
                            if isinstance(t_, ast.Name) and t_.id == name:
                                return [v_], False
                    elif any(isinstance(x, ast.Name) and x.id == name for x in ast.walk(t)):
                        return ["?"], False
            return [], True
        if isinstance(st, ast.AnnAssign):
            if isinstance(st.target, ast.Name) and st.target.id == name and st.value is not None:
                return [st.value], False
            return [], True
        if isinstance(st, ast.AugAssign):
            return [], True          # rebinding through an in-place operator keeps the object (arrays) -- not a new definition
        if isinstance(st, ast.If):
            a, ta = last_defs(st.body)
            b, tb = last_defs(st.orelse)
            return a + b, ta or tb
        if isinstance(st, ast.Try):
            a, ta = last_defs(list(st.body) + list(st.orelse))
            hs = [last_defs(h.body) for h in st.handlers]
            vals = a + [v for h, _t in hs for v in h]
            f, tf = last_defs(st.finalbody)
            if f and not tf:
                return f, False
            return vals + f, ta or any(t for _h, t in hs) or not st.handlers and ta
        if isinstance(st, (ast.For, ast.While, ast.With)):
            stores = any(isinstance(x, ast.Name) and x.id == name and isinstance(x.ctx, ast.Store) for x in ast.walk(st))
            if not stores:
                return [], True
            a, _ta = last_defs(st.body)
            return a + ["?"], True
        if isinstance(st, FUNC_NODES + (ast.ClassDef,)):
            return [], True
        if any(isinstance(x, ast.Name) and x.id == name and isinstance(x.ctx, ast.Store) for x in ast.walk(st)):
            return ["?"], False
        return [], True

    st = node
    while st is not None and not isinstance(st, ast.stmt):
        st = parent(st)
    out = []
    while st is not None and not isinstance(st, FUNC_NODES):
        blk, i = _block_of(st)
        if blk is None:
            return out + ["?"]
        vals, open_ = last_defs(blk[:i])
        out += vals
        if not open_:
            return out
        st = parent(st)
        if isinstance(st, (ast.For, ast.While)) and any(isinstance(x, ast.Name) and x.id == name and isinstance(x.ctx, ast.Store) for x in ast.walk(st)):
            out.append("?")
    return out or ["?"]


def clone(node):
    """Deep copy of a syntax tree through its fields only (copy.deepcopy would follow the ``_parent`` links and copy
    the whole module)."""
    if isinstance(node, list):
        return [clone(x) for x in node]
    if not isinstance(node, ast.AST):
        return node
    new = type(node)()
    for f in node._fields:
        if hasattr(node, f):
            setattr(new, f, clone(getattr(node, f)))
    for a in ("lineno", "col_offset", "end_lineno", "end_col_offset"):
        if hasattr(node, a):
            setattr(new, a, getattr(node, a))
    return new
