"""Path exploration of a statement block under a scenario (a finite assignment of truth values to atomic tests).

Used where a rule asks "what does this code do for a node of kind K whose operand is a V": instead of matching the
text of an arm, the block is walked statement by statement; ``if`` tests are evaluated through the scenario's
``truth`` function (three-valued: True / False / None = explore both), simple statements are handed to ``on_stmt``
which records events in the path state.  The result is the list of (state, terminal) pairs, terminal in
{'fall', 'continue', 'break', 'raise', ('return', value-node)}.  Nothing is executed; loops are not iterated (a loop
statement is handed to ``on_stmt`` as one event source and then both "body ran" effects are left to the callback).
"""

from __future__ import annotations

import ast
import copy


class TooManyPaths(Exception):
    pass


class UnexpandedLoopExit(TooManyPaths):
    """A loop that the caller did not ask to expand contains a `return`: whatever the walk concludes about returned
    values / terminals would ignore that exit.  Subclass of TooManyPaths so that every caller that already answers
    "too many paths -> not decided" answers the same here."""


def tri_not(v):
    return None if v is None else (not v)


def tri_and(vals):
    vals = list(vals)
    if any(v is False for v in vals):
        return False
    if any(v is None for v in vals):
        return None
    return True


def tri_or(vals):
    vals = list(vals)
    if any(v is True for v in vals):
        return True
    if any(v is None for v in vals):
        return None
    return False


class Explorer:
    def __init__(self, atom_truth, on_stmt=None, on_branch=None, max_paths=512, expand_loop=None):
        """atom_truth(test_node, state) -> True | False | None for an atomic test (not BoolOp / not);
        on_stmt(stmt, state) records the effect of a simple statement in ``state`` (a dict, copied per branch);
        on_branch(test_node, value, state) is told which way an explored-both-ways atomic test was taken;
        expand_loop(loop_stmt, state) -> True if the loop body is to be walked ONCE in place of the loop (one representative
        iteration; break / continue / falling off the body all go on after the loop)."""
        self.atom_truth = atom_truth
        self.on_stmt = on_stmt or (lambda st, state: None)
        self.on_branch = on_branch or (lambda t, v, state: None)
        self.expand_loop = expand_loop or (lambda st, state: False)
        self.max_paths = max_paths
        self.n = 0
        self.strict_loops = True        # refuse to walk past a non-expanded loop that can return

    # -- three-valued evaluation with forking on unknown atoms
    def _eval(self, test, state):
        """Yield (value, state') pairs: unknown atoms fork the state."""
        if isinstance(test, ast.UnaryOp) and isinstance(test.op, ast.Not):
            for v, s in self._eval(test.operand, state):
                yield (not v), s
            return
        if isinstance(test, ast.BoolOp):
            is_and = isinstance(test.op, ast.And)

            def rec(i, st):
                if i == len(test.values):
                    yield is_and, st
                    return
                for v, s in self._eval(test.values[i], st):
                    if v != is_and:          # short circuit
                        yield v, s
                    else:
                        yield from rec(i + 1, s)

            yield from rec(0, state)
            return
        v = self.atom_truth(test, state)
        if v is None:
            for val in (True, False):
                s = self._fork(state)
                self.on_branch(test, val, s)
                yield val, s
        else:
            yield bool(v), state

    def explore(self, stmts, state):
        out = []
        self._run(list(stmts), state, out)
        return out

    def _fork(self, state):
        return {k: (list(x) if isinstance(x, list) else set(x) if isinstance(x, set) else dict(x) if isinstance(x, dict) else x) for k, x in state.items()}

    def _run(self, stmts, state, out, cont=None, loop=None):
        """Walk ``stmts``; at the end continue with ``cont`` (list of statement lists still to run).  ``loop`` =
        (statements after the expanded loop, their cont, the outer loop) when inside an expanded loop body."""
        cont = cont or []
        for i, st in enumerate(stmts):
            if isinstance(st, ast.If):
                rest = stmts[i + 1:]
                for v, s in self._eval(st.test, self._fork(state)):
                    self._run(list(st.body if v else st.orelse), s, out, [rest] + cont, loop)
                return
            if isinstance(st, (ast.For, ast.While)) and not self.expand_loop(st, state) and self.strict_loops:
                for x in ast.walk(st):
                    if isinstance(x, (ast.FunctionDef, ast.Lambda, ast.AsyncFunctionDef)):
                        continue
                    if isinstance(x, ast.Return):
                        raise UnexpandedLoopExit(f"loop at line {getattr(st, 'lineno', '?')} returns from inside its body")
            if isinstance(st, (ast.For, ast.While)) and self.expand_loop(st, state):
                rest = stmts[i + 1:]
                self.on_stmt(st, state)
                inner = (rest, cont, loop, list(st.orelse))
                # marker continuation: falling off the body leaves the loop (through its else clause)
                self._run(list(st.body), state, out, [], inner)
                return
            if isinstance(st, (ast.Continue, ast.Break)):
                if loop is not None:
                    # break skips the loop's else clause; continue = this (representative) iteration is over
                    after = list(loop[0]) if isinstance(st, ast.Break) else list(loop[3]) + list(loop[0])
                    self._run(after, state, out, loop[1], loop[2])
                else:
                    self._emit(out, state, "continue" if isinstance(st, ast.Continue) else "break")
                return
            if isinstance(st, ast.Return):
                self.on_stmt(st, state)
                self._emit(out, state, ("return", st.value))
                return
            if isinstance(st, ast.Raise):
                self.on_stmt(st, state)
                self._emit(out, state, "raise")
                return
            if isinstance(st, ast.Try):
                # the protected body on its normal path, then the rest
                rest = stmts[i + 1:]
                self._run(list(st.body) + list(st.orelse) + list(st.finalbody), state, out, [rest] + cont, loop)
                return
            if isinstance(st, ast.With):
                rest = stmts[i + 1:]
                self._run(list(st.body), state, out, [rest] + cont, loop)
                return
            self.on_stmt(st, state)
        if cont:
            self._run(list(cont[0]), state, out, cont[1:], loop)
        elif loop is not None:
            self._run(list(loop[3]) + list(loop[0]), state, out, loop[1], loop[2])
        else:
            self._emit(out, state, "fall")

    def _emit(self, out, state, terminal):
        self.n += 1
        if self.n > self.max_paths:
            raise TooManyPaths()
        out.append((state, terminal))


def is_none(node) -> bool:
    return node is None or (isinstance(node, ast.Constant) and node.value is None)
