"""Canonical semantic tags for the reduction / vector node kinds (rule R01.7).

Both the ``evaluate`` method of a node class and the compiled closure built for it are mapped -- through a
finite table of the repository's idioms -- to one canonical term such as

    ('SUM', ('VEC', 'vector'))                      sum(x)
    ('DOT', ('K', 'coefficients'), ('VEC', 'vector'))
    ('SQRT', ('SUM', ('SQ', ('VEC', 'vector'))))      ||x||
    ('SUM', ('APPLY', ('K', 'op'), ('VEC', 'vector')))

An idiom outside the table is an AnalysisError ("cannot decide"), never a violation.
"""

from __future__ import annotations

import ast

from .astutil import dotted, src, walk_local
from .report import AnalysisError


class Unknown(AnalysisError):
    pass


def _strip(n):
    """float(...) / np.asarray(...) / .item() wrappers do not change the value."""
    while True:
        if isinstance(n, ast.Call) and dotted(n.func) in ("float", "np.asarray", "np.float64", "np.array") and len(n.args) >= 1 and not n.keywords:
            inner = n.args[0]
            if dotted(n.func) == "np.array" and isinstance(inner, (ast.ListComp, ast.GeneratorExp)):
                return n
            n = inner
            continue
        return n


class Canon:
    """``vec(node)`` decides whether an expression denotes a vector of element values and names its slot;
    ``scalar(node)`` names captured scalars.  Both are supplied by the caller (evaluate-dialect vs closure-dialect)."""

    def __init__(self, env, vec, scalar):
        self.env = env  # local name -> defining expression (single assignment)
        self.vec = vec
        self.scalar = scalar

    def c(self, n, depth=0):
        n = _strip(n)
        if depth > 12:
            raise Unknown("expression too deep")
        v = self.vec(n)
        if v is not None:
            return v
        s = self.scalar(n)
        if s is not None:
            return s
        if isinstance(n, ast.Name) and n.id in self.env:
            return self.c(self.env[n.id], depth + 1)
        if isinstance(n, ast.Constant):
            return ("CONST", n.value)
        if isinstance(n, ast.BinOp):
            if isinstance(n.op, ast.Pow):
                return ("POW", self.c(n.left, depth + 1), self.c(n.right, depth + 1))
            if isinstance(n.op, ast.MatMult):
                # a @ Q @ b
                l = n.left
                if isinstance(l, ast.BinOp) and isinstance(l.op, ast.MatMult):
                    return ("QUAD", self.c(l.left, depth + 1), self.c(l.right, depth + 1), self.c(n.right, depth + 1))
                return ("DOT", self.c(n.left, depth + 1), self.c(n.right, depth + 1))
            if isinstance(n.op, ast.Mult):
                a, b = self.c(n.left, depth + 1), self.c(n.right, depth + 1)
                if a == b:
                    return ("SQ", a)
                return ("MUL",) + tuple(sorted([a, b], key=repr))
            if isinstance(n.op, ast.Add):
                return ("ADD",) + tuple(sorted([self.c(n.left, depth + 1), self.c(n.right, depth + 1)], key=repr))
            if isinstance(n.op, ast.Sub):
                return ("SUB", self.c(n.left, depth + 1), self.c(n.right, depth + 1))
            if isinstance(n.op, ast.Div):
                return ("DIV", self.c(n.left, depth + 1), self.c(n.right, depth + 1))
        if isinstance(n, ast.Call):
            f = dotted(n.func)
            a = n.args
            if f in ("np.sum", "sum") and a:
                return ("SUM", self.c(a[0], depth + 1))
            if f == "np.dot" and len(a) == 2:
                return ("DOT", self.c(a[0], depth + 1), self.c(a[1], depth + 1))
            if f == "np.linalg.norm" and len(a) == 1 and not n.keywords:
                return ("SQRT", ("SUM", ("SQ", self.c(a[0], depth + 1))))
            if f in ("np.abs", "abs", "np.absolute") and a:
                return ("ABS", self.c(a[0], depth + 1))
            if f == "np.sqrt" and a:
                return ("SQRT", self.c(a[0], depth + 1))
            if f == "np.power" and len(a) == 2:
                return ("POW", self.c(a[0], depth + 1), self.c(a[1], depth + 1))
            if f == "np.fromiter" and a:
                return self.c(a[0], depth + 1)
            if f in ("np.array", "list") and a:
                return self.c(a[0], depth + 1)
            # application of a captured function to a vector: f(x[idx]) / self._NUMPY_FUNCS[self.op](vals)
            fn = self.scalar(n.func)
            if fn is not None and len(a) == 1:
                return ("APPLY", fn, self.c(a[0], depth + 1))
            if isinstance(n.func, ast.Name) and n.func.id in self.env and len(a) == 1:
                fn = self.scalar(self.env[n.func.id])
                if fn is not None:
                    return ("APPLY", fn, self.c(a[0], depth + 1))
        if isinstance(n, (ast.GeneratorExp, ast.ListComp)) and len(n.generators) == 1 and not n.generators[0].ifs:
            g = n.generators[0]
            src_vec = self.c(g.iter, depth + 1)
            if isinstance(g.target, ast.Name):
                sub = Canon({**self.env}, lambda m, t=g.target.id: ("ELEM",) if isinstance(m, ast.Name) and m.id == t else self.vec(m), self.scalar)
                body = sub.c(n.elt, depth + 1)
                return _map(body, src_vec)
        raise Unknown(f"idiom not in the table: {src(n)[:80]}")


def _map(body, vec):
    """MAP(lambda ELEM: body, vec) with element-wise bodies pushed onto the vector."""
    if body == ("ELEM",):
        return vec
    if isinstance(body, tuple):
        return tuple(_map(b, vec) if isinstance(b, tuple) else b for b in body)
    return body


# ------------------------------------------------------------------------------------------------- dialects

def evaluate_tag(prog, cls: str):
    """Canonical tag of ``<cls>.evaluate``."""
    ci = prog.cls(cls)
    m = ci.methods.get("evaluate")
    if m is None:
        raise Unknown(f"{cls}.evaluate not defined")
    env = {}
    for n in walk_local(m.node, include_self=False):
        if isinstance(n, ast.Assign) and len(n.targets) == 1 and isinstance(n.targets[0], ast.Name):
            if n.targets[0].id in env:
                env[n.targets[0].id] = None  # reassigned (branching): resolved below
            else:
                env[n.targets[0].id] = n.value
    iters = {}
    for name, meth in ci.methods.items():
        if name.startswith("_iter_"):
            slots = {x.attr for x in ast.walk(meth.node) if isinstance(x, ast.Attribute) and dotted(x.value) == "self"}
            slots = {s for s in slots if not s.startswith("_")}
            if len(slots) == 1:
                iters[name] = next(iter(slots))
    valparam = m.node.args.args[1].arg if len(m.node.args.args) > 1 else "values"

    def elem_eval(n):
        """<e>.evaluate(values) for loop variable e"""
        return isinstance(n, ast.Call) and isinstance(n.func, ast.Attribute) and n.func.attr == "evaluate" and n.args and src(n.args[0]) == valparam

    def vec(n):
        # [v.evaluate(values) for v in <iter>] where <iter> names a slot of self
        if isinstance(n, (ast.ListComp, ast.GeneratorExp)) and len(n.generators) == 1:
            g = n.generators[0]
            e = n.elt
            if isinstance(e, ast.Call) and dotted(e.func) == "float" and e.args:
                e = e.args[0]
            if elem_eval(e) and isinstance(g.target, ast.Name) and src(e.func.value) == g.target.id:
                slot = _slot_of_iter(g.iter, iters)
                if slot is None and isinstance(g.iter, ast.Name):
                    # a local that holds the element list of one slot, whichever container kind the slot has:
                    #   elements = self.v._variables  /  elements = self.v._expressions   (one per branch)
                    cands = [c.value for c in walk_local(m.node, include_self=False) if isinstance(c, (ast.Assign, ast.AnnAssign)) and getattr(c, "value", None) is not None and src(c.targets[0] if isinstance(c, ast.Assign) else c.target) == g.iter.id]
                    slots_ = {_slot_of_iter(c, iters) for c in cands}
                    if cands and len(slots_) == 1:
                        slot = next(iter(slots_))
                if slot:
                    return ("VEC", slot)
        if isinstance(n, ast.Call) and isinstance(n.func, ast.Attribute) and n.func.attr == "evaluate" and n.args and src(n.args[0]) == valparam:
            s = src(n.func.value)
            if s.startswith("self.") and s.count(".") == 1:
                return ("VEC", s[5:])
        return None

    def scalar(n):
        s = src(n)
        if s.startswith("self.") and s.count(".") == 1 and s[5:] in (ci.slots or ()):
            return ("K", s[5:])
        if isinstance(n, ast.Subscript) and src(n.value) in ("self._NUMPY_FUNCS", f"{cls}._NUMPY_FUNCS") and src(n.slice) == "self.op":
            return ("K", "op")
        return None

    # branching on operand kind: every branch must give the same tag
    rets = [n for n in walk_local(m.node, include_self=False) if isinstance(n, ast.Return) and n.value is not None]
    loops = [n for n in walk_local(m.node, include_self=False) if isinstance(n, ast.For)]
    tags = set()
    for r in rets:
        local_env = dict(env)
        # resolve names assigned in the same branch as the return
        blk = getattr(r, "_parent", None)
        for name in [k for k, v in env.items() if v is None]:
            cands = [n for n in walk_local(m.node, include_self=False) if isinstance(n, ast.Assign) and isinstance(n.targets[0], ast.Name) and n.targets[0].id == name]
            same = [c for c in cands if getattr(c, "_parent", None) is blk]
            pick = same[-1] if same else None
            if pick is None:
                vals = {repr(_try(lambda: Canon(local_env, vec, scalar).c(c.value))) for c in cands}
                if len(vals) == 1 and cands:
                    pick = cands[0]
            if pick is None:
                raise Unknown(f"{cls}.evaluate: cannot resolve local '{name}'")
            local_env[name] = pick.value
        acc = _accumulators(m.node, r, vec, scalar, local_env)
        local_env.update(acc)
        tags.add(Canon(local_env, vec, scalar).c(r.value))
    if len(tags) != 1:
        raise Unknown(f"{cls}.evaluate: branches denote different values {sorted(map(repr, tags))}")
    return next(iter(tags))


def _try(f):
    try:
        return f()
    except Unknown as e:
        return ("?", str(e))


def _slot_of_iter(it, iters):
    s = src(it)
    if s.startswith("self.") :
        rest = s[5:]
        if rest.endswith("()") and rest[:-2] in iters:
            return iters[rest[:-2]]
        for suffix in ("._variables", "._expressions", ""):
            if suffix and rest.endswith(suffix):
                rest = rest[: -len(suffix)]
                break
        if "." not in rest and "(" not in rest:
            return rest
    return None


def _accumulators(fn, ret, vec, scalar, env):
    """`acc = 0.0; for i in range(R): for j in range(C): acc += term` -> acc denotes SUM over the matrix slot."""
    out = {}
    for n in walk_local(fn, include_self=False):
        if isinstance(n, ast.AugAssign) and isinstance(n.op, ast.Add) and isinstance(n.target, ast.Name):
            loops = []
            p = getattr(n, "_parent", None)
            while p is not None and p is not fn:
                if isinstance(p, ast.For):
                    loops.append(p)
                p = getattr(p, "_parent", None)
            if len(loops) == 2 and all("range(" in src(l.iter) for l in loops):
                slot = None
                for x in ast.walk(loops[-1].iter):
                    if isinstance(x, ast.Attribute) and dotted(x.value) and dotted(x.value).startswith("self."):
                        slot = dotted(x.value)[5:]
                if slot is None:
                    continue
                idx = [src(l.target) for l in reversed(loops)]
                body_env = dict(env)
                for st in loops[0].body:
                    if isinstance(st, ast.Assign) and isinstance(st.targets[0], ast.Name):
                        body_env[st.targets[0].id] = st.value

                def evec(m, slot=slot, idx=idx):
                    m = _strip(m)
                    if isinstance(m, ast.Call) and isinstance(m.func, ast.Attribute) and m.func.attr == "evaluate":
                        s = src(m.func.value)
                        if s in (f"self.{slot}[{idx[0]}, {idx[1]}]", f"self.{slot}._variables[{idx[0]}][{idx[1]}]", f"self.{slot}._expressions[{idx[0]}][{idx[1]}]"):
                            return ("ELEM",)
                    return None

                term = Canon(body_env, evec, scalar).c(n.value)
                out[n.target.id] = _Lit(("SUM", _map(term, ("VEC", slot))))
    # wrap literal tags so Canon returns them directly
    return {k: v for k, v in out.items()}


class _Lit(ast.AST):
    """A pre-computed tag smuggled through the environment."""
    _fields = ()

    def __init__(self, tag):
        self.tag = tag


_orig_c = Canon.c


def _c(self, n, depth=0):
    if isinstance(n, _Lit):
        return n.tag
    return _orig_c(self, n, depth)


Canon.c = _c


def closure_tag(lam: ast.Lambda, factory_env: dict, node_subject: str):
    """Canonical tag of a compiled closure ``lambda x, idx=..., k=...: body`` built in a dispatcher arm.
    ``factory_env``: arm-local name -> defining expression.  ``node_subject``: the dispatch subject (expr / node)."""
    params = [a.arg for a in lam.args.args]
    x = params[0]
    defaults = dict(zip(params[::-1], lam.args.defaults[::-1]))
    local_env = {}
    body_expr = lam.body
    if isinstance(lam, ast.FunctionDef):
        rets = [n for n in walk_local(lam, include_self=False) if isinstance(n, ast.Return) and n.value is not None]
        if len(rets) != 1:
            raise Unknown(f"closure {lam.name} has {len(rets)} return statements")
        body_expr = rets[0].value
        for n in walk_local(lam, include_self=False):
            if isinstance(n, ast.Assign) and len(n.targets) == 1 and isinstance(n.targets[0], ast.Name):
                local_env[n.targets[0].id] = n.value

    def origin(name):
        d = defaults.get(name)
        if isinstance(d, ast.Name):
            return factory_env.get(d.id, d)
        if d is not None:
            return d
        return factory_env.get(name)

    def slot_from_build(e):
        """np.array([var_indices[v.name] for v in <subj>.<slot>._variables]) -> slot ;
        _build_vector_evaluator(<subj>.<slot>, ...) -> slot ; [ _build_evaluator(e, ..) for e in <subj>.<slot>._expressions ]"""
        if e is None:
            return None
        for a in ast.walk(e):
            if isinstance(a, ast.Attribute) and isinstance(a.value, ast.Name) and a.value.id == node_subject:
                return a.attr
        if isinstance(e, ast.Name):
            return slot_from_build(factory_env.get(e.id))
        # aliases of operand slots: left, right = expr.left, expr.right
        for a in ast.walk(e):
            if isinstance(a, ast.Name) and a.id in factory_env and a.id != node_subject:
                o = factory_env[a.id]
                if isinstance(o, ast.Attribute) and isinstance(o.value, ast.Name) and o.value.id == node_subject:
                    return o.attr
        return None

    def vec(n):
        n = _strip(n)
        # x[idx]
        if isinstance(n, ast.Subscript) and isinstance(n.value, ast.Name) and n.value.id == x and isinstance(n.slice, ast.Name):
            s = slot_from_build(origin(n.slice.id))
            if s:
                return ("VEC", s)
        # vf(x)
        if isinstance(n, ast.Call) and isinstance(n.func, ast.Name) and len(n.args) == 1 and src(n.args[0]) == x:
            o = origin(n.func.id)
            if isinstance(o, ast.Call) and dotted(o.func) == "_build_vector_evaluator":
                s = slot_from_build(o)
                if s:
                    return ("VEC", s)
        # [f(x) for f in fns] / (f(x) for f in fns)
        if isinstance(n, (ast.ListComp, ast.GeneratorExp)) and len(n.generators) == 1:
            g = n.generators[0]
            e = n.elt
            if isinstance(e, ast.Call) and isinstance(e.func, ast.Name) and isinstance(g.target, ast.Name) and e.func.id == g.target.id and len(e.args) == 1 and src(e.args[0]) == x and isinstance(g.iter, ast.Name):
                s = slot_from_build(origin(g.iter.id))
                if s:
                    return ("VEC", s)
        return None

    def scalar(n):
        if isinstance(n, ast.Name) and n.id != x:
            o = origin(n.id)
            if o is None:
                return None
            so = src(_strip(o))
            if isinstance(_strip(o), ast.Attribute) and so.startswith(node_subject + "."):
                return ("K", so[len(node_subject) + 1:])
            if isinstance(o, ast.Subscript) and src(o.value).endswith("._NUMPY_FUNCS"):
                k = src(o.slice)
                ko = factory_env.get(k)
                if ko is not None and src(ko) == f"{node_subject}.op" or k == f"{node_subject}.op":
                    return ("K", "op")
        return None

    return Canon(local_env, vec, scalar).c(body_expr)
