"""Syntax-directed translation of optyx's three rule dialects into algebra terms.

  simplifier-helper dialect   _simplify_mul(cos(operand), d_operand)
  node-constructor dialect    BinaryOp(Constant(-1.0), UnaryOp(var, "sin"), "*")
  NumPy dialect               -np.sin(x[indices])

No optyx code is executed; arms are straight-line, local assignments are inlined through ``env``.
Anything outside the table raises Untranslatable (-> "cannot decide", exit 2).
"""

from __future__ import annotations

import ast
from fractions import Fraction

from . import algebra as al
from .astutil import dotted, src
from .report import AnalysisError


class Untranslatable(AnalysisError):
    pass


UNARY_FUNCS = {"sin", "cos", "tan", "exp", "log", "log2", "log10", "sqrt", "tanh", "sinh", "cosh", "asin", "acos", "atan", "asinh", "acosh", "atanh"}
NP_ALIASES = {"arcsin": "asin", "arccos": "acos", "arctan": "atan", "arcsinh": "asinh", "arccosh": "acosh", "arctanh": "atanh", "absolute": "abs", "negative": "neg"}
SIMPLIFY = {"_simplify_add": "+", "_simplify_sub": "-", "_simplify_mul": "*", "_simplify_div": "/", "_simplify_pow": "**"}


class Tr:
    def __init__(self, env=None, symbols=None, gather=None):
        """env: name -> Rat | ast node (translated lazily, inlined)
        symbols: name -> symbolic-exponent name (e.g. {'n': 'n', 'k': 'k'}) for linear exponent forms
        gather: predicate(node) -> Rat|None for dialect-specific leaves (x[indices] -> U)"""
        self.env = dict(env or {})
        self.symbols = dict(symbols or {})
        self.gather = gather

    # ---------------------------------------------------------------- exponents
    def expo(self, node):
        """exponent as (symbol or None, integer/Fraction constant):  n - 1 -> ('n', -1) ;  2 -> (None, 2)"""
        if isinstance(node, ast.Call) and dotted(node.func) in ("Constant", "float", "int") and node.args:
            return self.expo(node.args[0])
        if isinstance(node, ast.Constant) and isinstance(node.value, (int, float)):
            return None, Fraction(str(node.value))
        if isinstance(node, ast.Name):
            if node.id in self.symbols:
                return self.symbols[node.id], Fraction(0)
            v = self.env.get(node.id)
            if isinstance(v, ast.AST):
                return self.expo(v)
            if isinstance(v, tuple) and v[0] == "expo":
                return v[1], v[2]
        if isinstance(node, ast.BinOp) and isinstance(node.op, (ast.Add, ast.Sub)):
            s1, c1 = self.expo(node.left)
            s2, c2 = self.expo(node.right)
            if s2 is None:
                return s1, c1 + c2 if isinstance(node.op, ast.Add) else c1 - c2
            if s1 is None and isinstance(node.op, ast.Add):
                return s2, c1 + c2
        raise Untranslatable(f"exponent form not recognised: {src(node)[:60]}")

    def power(self, base, enode):
        sym, c = self.expo(enode)
        if c.denominator != 1:
            if sym is None and c == Fraction(1, 2):
                return al.SQRT(base)
            raise Untranslatable(f"fractional literal exponent {c}")
        k = int(c)
        if sym is None:
            return base.pow_int(k)
        return al.POW(base, sym) * base.pow_int(k)

    # ---------------------------------------------------------------- terms
    def t(self, node, depth=0):
        if depth > 40:
            raise Untranslatable("term too deep")
        if self.gather is not None:
            g = self.gather(node)
            if g is not None:
                return g
        if isinstance(node, al.Rat):
            return node
        if isinstance(node, ast.Constant) and isinstance(node.value, (int, float)) and not isinstance(node.value, bool):
            return al.C(Fraction(str(node.value)))
        if isinstance(node, ast.Name):
            if node.id in self.env:
                v = self.env[node.id]
                if isinstance(v, al.Rat):
                    return v
                if isinstance(v, ast.AST):
                    return self.t(v, depth + 1)
            if node.id in self.symbols:
                return al.A(self.symbols[node.id])
            raise Untranslatable(f"unbound name {node.id}")
        if isinstance(node, ast.UnaryOp) and isinstance(node.op, ast.USub):
            return -self.t(node.operand, depth + 1)
        if isinstance(node, ast.UnaryOp) and isinstance(node.op, ast.UAdd):
            return self.t(node.operand, depth + 1)
        if isinstance(node, ast.BinOp):
            if isinstance(node.op, ast.Pow):
                return self.power(self.t(node.left, depth + 1), node.right)
            l, r = self.t(node.left, depth + 1), self.t(node.right, depth + 1)
            if isinstance(node.op, ast.Add):
                return l + r
            if isinstance(node.op, ast.Sub):
                return l - r
            if isinstance(node.op, ast.Mult):
                return l * r
            if isinstance(node.op, ast.Div):
                return l / r
        if isinstance(node, ast.Call):
            return self.call(node, depth)
        if isinstance(node, ast.Attribute):
            # <name>.value of a bound Constant symbol
            s = src(node)
            if s in self.env:
                v = self.env[s]
                return v if isinstance(v, al.Rat) else self.t(v, depth + 1)
        raise Untranslatable(f"construct not in the rule-term table: {src(node)[:70]}")

    def call(self, node, depth):
        f = dotted(node.func) or ""
        a = node.args
        short = f.split(".")[-1]
        if f in SIMPLIFY and len(a) == 2:
            op = SIMPLIFY[f]
            if op == "**":
                return self.power(self.t(a[0], depth + 1), a[1])
            l, r = self.t(a[0], depth + 1), self.t(a[1], depth + 1)
            return {"+": l + r, "-": l - r, "*": l * r, "/": None}[op] if op != "/" else l / r
        if f == "_simplify_neg" and len(a) == 1:
            return -self.t(a[0], depth + 1)
        if f == "Constant" and len(a) == 1:
            s = src(a[0])
            if s in ("np.log(2.0)", "np.log(2)", "math.log(2.0)", "math.log(2)"):
                return al.LN2
            if s in ("np.log(10.0)", "np.log(10)", "math.log(10.0)", "math.log(10)"):
                return al.LN10
            if isinstance(a[0], ast.Call) and dotted(a[0].func) == "float" and a[0].args:
                return self.t(a[0].args[0], depth + 1)
            return self.t(a[0], depth + 1)
        if f == "BinaryOp" and len(a) == 3 and isinstance(a[2], ast.Constant):
            op = a[2].value
            if op == "**":
                return self.power(self.t(a[0], depth + 1), a[1])
            l, r = self.t(a[0], depth + 1), self.t(a[1], depth + 1)
            if op == "+":
                return l + r
            if op == "-":
                return l - r
            if op == "*":
                return l * r
            if op == "/":
                return l / r
            raise Untranslatable(f"BinaryOp literal {op!r}")
        if f == "UnaryOp" and len(a) == 2 and isinstance(a[1], ast.Constant):
            return al.FUN(a[1].value, self.t(a[0], depth + 1))
        if f in ("abs_", "abs") and len(a) == 1:
            return al.ABS(self.t(a[0], depth + 1))
        if f in ("sqrt_fn",) and len(a) == 1:
            return al.SQRT(self.t(a[0], depth + 1))
        if f in UNARY_FUNCS and len(a) == 1:
            return al.FUN(f, self.t(a[0], depth + 1))
        if f.startswith("np.") and len(a) >= 1:
            base = NP_ALIASES.get(short, short)
            if base in UNARY_FUNCS or base in ("abs", "neg"):
                return al.FUN(base, self.t(a[0], depth + 1))
            if base == "sign":
                return al.FUN("sign", self.t(a[0], depth + 1))
            if base == "power" and len(a) == 2:
                return self.power(self.t(a[0], depth + 1), a[1])
            if base in ("diag", "asarray", "array", "float64", "copy", "ascontiguousarray", "atleast_1d"):
                return self.t(a[0], depth + 1)
            if base in ("negative",) and len(a) == 1 and not node.keywords:
                return -self.t(a[0], depth + 1)
        if isinstance(node.func, ast.Attribute) and node.func.attr in ("copy", "astype", "ravel", "flatten") and not isinstance(node.func.value, ast.Name) or \
                (isinstance(node.func, ast.Attribute) and node.func.attr in ("copy", "astype", "ravel", "flatten") and isinstance(node.func.value, ast.Name) and node.func.value.id not in ("np", "numpy", "copy")):
            # x.copy() / x.astype(float): the same values
            return self.t(node.func.value, depth + 1)
        if f in ("_sanitize_derivatives", "float") and len(a) == 1:
            return self.t(a[0], depth + 1)
        raise Untranslatable(f"call not in the rule-term table: {src(node)[:70]}")


def binary_reference(op, l, r, dl, dr, n_symbol=None, self_atom=None):
    """Reference derivative of l (op) r."""
    if op == "+":
        return dl + dr
    if op == "-":
        return dl - dr
    if op == "*":
        return l * dr + r * dl
    if op == "/":
        return (r * dl - l * dr) / (r * r)
    raise KeyError(op)
